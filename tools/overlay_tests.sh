#!/bin/sh
# Run the repository's own test-suite against an overlay build (with the compiled
# Fortran extensions) and write the set of passing test ids to $1 (default /tmp/vf_overlay_pass.txt).
out=${1:-/tmp/vf_overlay_pass.txt}
cd /verif
OV=$(/venv/bin/python -c "
from vf import build
print(build.make_overlay('opt', keep=True))")
cd $OV && PYTHONPATH=$OV MPLBACKEND=Agg /venv/bin/python -m pytest -q -p no:cacheprovider --timeout=600 -n 12 --junitxml=$OV/junit.xml holopy >/tmp/vf_overlay_tests.log 2>&1
python3 - "$OV/junit.xml" "$out" <<'PY'
import sys, xml.etree.ElementTree as ET
p=set(); f=set()
for tc in ET.parse(sys.argv[1]).getroot().iter('testcase'):
    tid = tc.get('classname') + '::' + tc.get('name')
    (f if any(ch.tag in ('failure','error') for ch in tc) else p).add(tid) if not any(ch.tag=='skipped' for ch in tc) else None
open(sys.argv[2],'w').write('\n'.join(sorted(p))+'\n')
open(sys.argv[2]+'.failed','w').write('\n'.join(sorted(f))+'\n')
print('overlay tests: passed', len(p), 'failed', len(f))
PY
rm -rf $OV
