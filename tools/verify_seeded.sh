#!/bin/sh
# usage: tools/verify_seeded.sh <out_dir> <ID> [more IDs to run]
# 1. in a scratch worktree: patch applies, pinned baseline still passes, demo fails with / passes without the patch
# 2. applies the patch to /repo, runs the quick check(s), reverts /repo.
out=$(realpath "$1"); shift
wt=/tmp/vf_seed_wt_$$
git -C /repo worktree add -q --detach $wt HEAD || exit 2
(cd $wt && git apply "$out/patch.diff") || { echo "PATCH DOES NOT APPLY"; git -C /repo worktree remove --force $wt; exit 2; }
/tmp/mut/baseline $wt | head -3
/tmp/mut/hpy $wt "$out/demo.py" > /tmp/vf_seed_demo_with.txt 2>&1; echo "demo with patch: exit=$? $(tail -1 /tmp/vf_seed_demo_with.txt | cut -c1-200)"
git -C $wt checkout -- . 
/tmp/mut/hpy $wt "$out/demo.py" > /tmp/vf_seed_demo_without.txt 2>&1; echo "demo without patch: exit=$? $(tail -1 /tmp/vf_seed_demo_without.txt | cut -c1-200)"
git -C /repo worktree remove --force $wt
cd /verif
if [ -n "$(git -C /repo status --porcelain)" ]; then echo "/repo not clean"; exit 2; fi
git -C /repo apply "$out/patch.diff"
for id in "$@"; do
  o=$(VF_NO_EVIDENCE=1 ./check "$id" --tier ${TIER:-quick} 2>/dev/null); rc=$?
  echo "CHECK $id exit=$rc $(echo "$o" | grep -m2 'witness: mech' | cut -c1-260 | tr '\n' ' ')"
done
git -C /repo checkout -- .
