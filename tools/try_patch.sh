#!/bin/sh
# usage: tools/try_patch.sh <patch.diff> <ID> [<ID>...]
# Applies a seeded change to /repo's working tree, runs the quick checks named, reverts the change.
# Evidence files are not rewritten (VF_NO_EVIDENCE=1).  Prints one line per check: ID exit-code first-violation.
patch=$(realpath "$1"); shift
cd /verif || exit 2
if [ -n "$(git -C /repo status --porcelain)" ]; then echo "/repo not clean"; exit 2; fi
git -C /repo apply "$patch" || { echo "patch does not apply"; exit 2; }
for id in "$@"; do
  out=$(VF_NO_EVIDENCE=1 ./check "$id" --tier ${TIER:-quick} 2>/dev/null)
  rc=$?
  echo "$id exit=$rc $(echo "$out" | grep -m1 'witness: mech' | cut -c1-220)"
done
git -C /repo checkout -- .
git -C /repo status --porcelain | head -3
