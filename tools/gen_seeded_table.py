#!/usr/bin/env python3
"""Regenerates the table of seeded changes in DESIGN.md (between the SEEDED-TABLE markers) from seeded/*/meta.json."""
import json, os, re, glob
rows = []
missed = 0
for d in sorted(glob.glob('/verif/seeded/*/')):
    name = os.path.basename(d.rstrip('/'))
    m = json.load(open(d + 'meta.json'))
    summ = re.sub(r'\s+', ' ', m.get('summary') or '').replace('|', '/')
    if len(summ) > 230:
        summ = summ[:227] + '...'
    files = ', '.join(os.path.basename(f) for f in (m.get('files_changed') or []))
    cb = m.get('caught_by') or []
    first_missed = any('MISSED' in c for c in cb)
    is_open = str(m.get('status', '')).startswith('open miss')
    missed += first_missed and not is_open
    mechs = '; '.join(re.sub(r'\s+', ' ', c.split(' (')[0]).replace('|', '/') for c in cb)
    if str(m.get('status', '')).startswith('neutralised'):
        mechs += ' -- ' + m['status'].split(':')[0]
    rows.append('| %s | %s | %s | %s | %s |' % (name, files, summ, mechs, 'STILL MISSED (open)' if is_open else ('yes' if first_missed else 'no')))
tab = ['| id | file | change | caught by (violation mechanism reported) | missed by the first version of the check |', '|---|---|---|---|---|'] + rows
tab.append('')
neutral = sum(1 for d in glob.glob('/verif/seeded/*/meta.json') if str(json.load(open(d)).get('status', '')).startswith('neutralised'))
tab.append('%d seeded changes stored; %d of them were missed by the check as it stood when the change arrived and are caught after the strengthening described below; %d have since been made harmless by a repair of the code they touch (marked "neutralised": their own demonstration reports that the property holds with the patch applied) and are skipped by the regression run; %d (round 10) are NOT caught by the committed checks yet ("open miss").' % (len(rows), missed, neutral, sum(1 for d in glob.glob('/verif/seeded/*/meta.json') if str(json.load(open(d)).get('status', '')).startswith('open miss'))))
s = open('/verif/DESIGN.md').read()
a, b = '<!-- SEEDED-TABLE-BEGIN -->', '<!-- SEEDED-TABLE-END -->'
assert a in s and b in s
s = s[:s.index(a) + len(a)] + '\n' + '\n'.join(tab) + '\n' + s[s.index(b):]
open('/verif/DESIGN.md', 'w').write(s)
print(len(rows), 'rows;', missed, 'initially missed')
