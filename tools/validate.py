#!/usr/bin/env python3
"""Validate MANIFEST.json and evidence/*.json against the given schemas (run with python3-vt)."""
import glob, json, sys
import jsonschema
ok = True
m = json.load(open('/verif/MANIFEST.json'))
jsonschema.validate(m, json.load(open('/root/.vp/MANIFEST.schema.json')))
es = json.load(open('/root/.vp/EVIDENCE.schema.json'))
for c in m['checks']:
    try:
        jsonschema.validate(json.load(open(c['evidence_file'])), es)
    except Exception as e:
        ok = False
        print('EVIDENCE PROBLEM', c['property_id'], str(e)[:300])
print('manifest valid; checks:', len(m['checks']), 'evidence ok' if ok else 'evidence problems')
sys.exit(0 if ok else 1)
