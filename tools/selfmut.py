#!/usr/bin/env python3
"""Break-it experiments (DESIGN section 3): apply each listed source mutation to a scratch git worktree of
/repo (never to /repo itself), run the named checks against that worktree (VF_REPO=<worktree>,
VF_NO_EVIDENCE=1), record whether they fire, revert.  Usage: tools/selfmut.py [--tier quick] [name-filter]
Writes /verif/MUTANTS.md-style lines to stdout."""
import os
import subprocess
import sys
import time

WT = "/tmp/vf_selfmut_wt"
M = []


def m(name, props, path, old, new, count=1):
    M.append(dict(name=name, props=props.split(), path=path, old=old, new=new, count=count))


I = "holopy/scattering/interface.py"
IF = "holopy/scattering/imageformation.py"
MD = "holopy/core/metadata.py"
# ---- C01
m("c01-drop-scaling", "C01 C12", I, "scattered_field * scaling, reference_field)", "scattered_field, reference_field)")
m("c01-ref-all-components", "C01", I, "holo = (np.abs(total_field.sel(vector=['x', 'y']))**2).sum(", "holo = (np.abs(total_field)**2).sum(")
m("c01-intensity-z", "C01", I, "intensity = (np.abs(field.sel(vector=['x', 'y']))**2).sum(", "intensity = (np.abs(field)**2).sum(")
m("c01-history-cache", "C01", "holopy/scattering/theory/mie.py",
  "        if (ensure_array(s.r) == 0).any():\n            raise InvalidScatterer(s, \"Radius is zero\")",
  "        if (ensure_array(s.r) == 0).any():\n            raise InvalidScatterer(s, \"Radius is zero\")\n        key = (float(np.max(ensure_array(s.r))), float(medium_wavevec))\n        if getattr(Mie, '_cache', (None, None))[0] == key:\n            return Mie._cache[1]\n        Mie._cache = (key, None)")
# ---- C02 / C03
m("c02-nstop-minus3", "C02 C03", "holopy/scattering/theory/mie_f/miescatlib.py", "return int(np.round(np.absolute(x+4.05*x**(1./3.)+2)))", "return int(np.round(np.absolute(x+4.05*x**(1./3.)+2))) - 3")
m("c02-layered-noncumulative", "C02 C20", "holopy/scattering/scatterer/sphere.py", "r[i+1] = r[i] + t", "r[i+1] = t")
m("c03-cabs-sign", "C03", "holopy/scattering/theory/mie.py", "cabs = cext - cscat # conservation of energy", "cabs = cext + cscat # conservation of energy")
m("c03-asym-prefactor", "C03", "holopy/scattering/theory/mie.py", "asym = 4. * np.pi / (medium_wavevec**2 * cscat)", "asym = 2. * np.pi / (medium_wavevec**2 * cscat)")
# ---- C04
m("c04-wavevec-no-index", "C04 C02", IF, "return 2 * np.pi / (schema.illum_wavelen / schema.medium_index)", "return 2 * np.pi / schema.illum_wavelen")
# ---- C05
m("c05-mielens-sign", "C05 C06 C08", "holopy/scattering/theory/mielens.py", "phi -= pol_angle", "phi += pol_angle")
m("c05-no-z-inversion", "C05 C02", IF, "wavevec * (origin[2] - f.z.values),", "wavevec * (f.z.values - origin[2]),")
m("c19-atan2-swapped", "C19 C05", "holopy/core/math.py", "    phi = np.arctan2(y, x) % (2*np.pi)\n    z = (np.full(np.shape(rho), z)", "    phi = np.arctan2(x, y) % (2*np.pi)\n    z = (np.full(np.shape(rho), z)")
# ---- C06
m("c06-superposition-assign", "C06", IF, "            field += self._calculate_single_color_scattered_field(s, schema)", "            field = self._calculate_single_color_scattered_field(s, schema)")
m("c06-to-vector-no-normalise", "C06 C16 C01", MD, "    c = c/np.hypot.reduce(c)\n", "")
m("c06-channel-by-position", "C06", IF, "                    schema.illum_wavelen.sel(illumination=illum).values)[0],", "                    schema.illum_wavelen.values)[0],")
# ---- C07
m("c07-replace-true", "C07", MD, "selection = np.random.choice(tot_pix, pixels, replace=False)", "selection = np.random.choice(tot_pix, pixels, replace=True)")
m("c07-stack-order", "C07 C01", MD, "        return a.stack(flat=('x', 'y', 'z'))", "        return a.stack(flat=('y', 'x', 'z'))")
# ---- C08
m("c08-cutoff", "C08", "holopy/scattering/theory/mielensfunctions.py", "rho_small = krho < 3.9 * self.quad_npts", "rho_small = krho < 0.39 * self.quad_npts")
m("c08-aberration-order", "C08", "holopy/scattering/theory/mielensfunctions.py", "            self._pupil_x_squared**2 *\n            legval(self._pupil_x_squared, coeffs_high_to_low))", "            self._pupil_x_squared**2 *\n            (1 + legval(self._pupil_x_squared, coeffs_high_to_low)))")
m("c08-lens-phase", "C08 C10", "holopy/scattering/theory/lens.py", "        return -1. * np.exp(1j * particle_kz)", "        return np.exp(1j * particle_kz)")
# ---- C09
m("c09-centroid", "C09 C05", "holopy/scattering/theory/multisphere.py", "centers = (scatterer.centers - scatterer.centers.mean(0)) * medium_wavevec", "centers = (scatterer.centers - scatterer.centers[0]) * medium_wavevec")
m("c09-rule-30-to-3", "C09", I, "close_enough = max_separation <= 30 * max_radius", "close_enough = max_separation <= 3 * max_radius")
m("c09-rule-strict", "C09", I, "close_enough = max_separation <= 30 * max_radius", "close_enough = max_separation < 30 * max_radius")
m("c09-vctran-revert", "C09 C03", "holopy/scattering/theory/mie_f/scsmfo_min.for", "      do n=1,nmax\n         nn1=n*(n+1)\n         na=(n-1)*n*(n+4)/6\n         lmin=min(n,nmax)", "      do n=1,nodri\n         nn1=n*(n+1)\n         na=(n-1)*n*(n+4)/6\n         lmin=min(n,nodrj)")
# ---- C10
m("c10-alpha-beta-swapped", "C10", "holopy/scattering/theory/tmatrix.py", "        alpha = scatterer.rotation[2] * 180 / np.pi\n        beta = scatterer.rotation[1] * 180 / np.pi", "        alpha = scatterer.rotation[1] * 180 / np.pi\n        beta = scatterer.rotation[2] * 180 / np.pi")
m("c10-angle-guard-removed", "C10", "holopy/scattering/theory/tmatrix.py", "        beta = beta % 360\n        if beta > 180:\n            beta = 360 - beta\n            alpha = alpha + 180\n        alpha = alpha % 360\n", "")
m("c10-convention-sign", "C10 C05", "holopy/scattering/theory/tmatrix.py", "[-(s21*c + s22*s), -(s21*s - s22*c)]])", "[(s21*c + s22*s), (s21*s - s22*c)]])")
# ---- C11
m("c11-tie-shift", "C11 C15", "holopy/core/mapping.py", "            shift = (np.array(indices) < old_index).sum() - 1", "            shift = (np.array(indices) < old_index).sum()")
m("c11-name-dedup", "C11", "holopy/core/mapping.py", "        while name in self.parameter_names:\n            counter, reversename = name[::-1].split(\"_\", 1)\n            name = reversename[::-1] + \"_\" + str(int(counter[::-1]) + 1)\n", "")
m("c11-shallow-parameters", "C11", "holopy/scattering/scatterer/scatterer.py", "        return deepcopy(self._parameters)", "        return copy(self._parameters)")
# ---- C12
m("c12-half-N", "C12", "holopy/inference/model.py", "            -N/2 * np.log(2 * np.pi) -", "            -N * np.log(2 * np.pi) -")
m("c12-noise-precedence", "C12", "holopy/inference/model.py", "        if 'noise_sd' in optics_map and optics_map['noise_sd'] is not None:\n            val = optics_map['noise_sd']\n",
  "        if hasattr(schema, 'noise_sd') and schema.noise_sd is not None:\n            val = schema.noise_sd\n        elif 'noise_sd' in optics_map and optics_map['noise_sd'] is not None:\n            val = optics_map['noise_sd']\n")
m("c12-no-shortcircuit", "C12", "holopy/inference/model.py", "        if lnprior == -np.inf:\n            return lnprior\n        else:", "        if False:\n            return lnprior\n        else:")
# ---- C13
m("c13-limits-unscaled", "C13", "holopy/inference/nmpfit.py", "                d['limits'][0] = scaled_bound(par, par.lower_bound, 1)", "                d['limits'][0] = par.lower_bound")
m("c13-no-cleanup", "C13", "holopy/inference/nmpfit.py", "        self.cleanup_from_fit()\n", "")
# ---- C14
m("c14-exclusive-bounds", "C14 C12", "holopy/core/prior.py", "        if not self.lower_bound <= p <= self.upper_bound:\n            return -np.inf\n        # For a uniform", "        if not self.lower_bound < p < self.upper_bound:\n            return -np.inf\n        # For a uniform")
m("c14-sub-as-add", "C14", "holopy/core/prior.py", "        return self + (-value)", "        return self + value")
m("c14-rtruediv", "C14", "holopy/core/prior.py", "        return value * TransformedPrior(_reciprocal, self)", "        return value * self")
# ---- C15
m("c15-no-tuple-representer", "C15", "holopy/core/io/serialize.py", "yaml.add_representer(tuple, tuple_representer)\n", "")
m("c15-drop-none", "C15", "holopy/core/holopy_object.py", "                yield var, None\n", "                pass\n")
# ---- C16
m("c16-spacing-swapped", "C16 C18", MD, "        ('x', np.arange(shape[1]) * spacing[0]),\n        ('y', np.arange(shape[2]) * spacing[1]),", "        ('x', np.arange(shape[1]) * spacing[1]),\n        ('y', np.arange(shape[2]) * spacing[0]),")
m("c16-welford", "C16 C18", "holopy/core/io/io.py", "            return np.sqrt(self._running_var / (self._n))", "            return np.sqrt(self._running_var / (self._n - 1))")
m("c16-pack-attrs-coords", "C16", "holopy/core/io/io.py", "                new_attrs[attr_coords][attr][str(dim)]=val[dim].values", "                new_attrs[attr_coords][attr][str(dim)]=np.sort(val[dim].values)")
# ---- C17
m("c17-ifftshift-revert", "C17", "holopy/core/process/fourier.py", "            data_np = np.fft.ifftshift(data_np, axes=axes)", "            data_np = np.fft.fftshift(data_np, axes=axes)")
m("c17-zero-not-reinserted", "C17", "holopy/propagation/convolution_propagation.py", "        res = xr.concat([zero] * n_zero + [res], dim='z')", "        res = xr.concat([zero] + [res], dim='z')")
m("c17-gradient-sign", "C17", "holopy/propagation/convolution_propagation.py", "        g -= np.exp(-1j * 2 * np.pi * (d + gradient_filter) / med_wavelen * np.sqrt(root))", "        g += np.exp(-1j * 2 * np.pi * (d + gradient_filter) / med_wavelen * np.sqrt(root))")
# ---- C18
m("c18-bg-order", "C18", "holopy/core/process/img_proc.py", "    holo = (raw - df) / zero_filter(bg - df)", "    holo = (raw - df) / zero_filter(bg) ")
m("c18-crop-plus1", "C18 C07", "holopy/core/process/img_proc.py", "int(np.round(c+s/2))) for c, s", "int(np.round(c+s/2)) + 1) for c, s")
m("c18-normalize-mean", "C18", "holopy/core/process/img_proc.py", "image * 1.0 / image.sum() * image.size)", "image * 1.0 / image.max())")
# ---- C19
m("c19-mod-removed", "C19", "holopy/core/math.py", "    theta = np.arctan2(rho, z)\n    phi = np.arctan2(y, x) % (2*np.pi)", "    theta = np.arctan2(rho, z)\n    phi = np.arctan2(y, x)")
m("c19-rotation-transposed", "C19 C05 C10", "holopy/core/math.py", "                     -ca*sb, sa*sb, cb]).reshape((3,3)) # row major", "                     -ca*sb, sa*sb, cb]).reshape((3,3)).T # row major")
# ---- C20
m("c20-inclusive", "C20", "holopy/scattering/scatterer/sphere.py", "(lambda points, ri=ri: (points**2).sum(-1) < ri**2)", "(lambda points, ri=ri: (points**2).sum(-1) <= ri**2)")
m("c20-overlap-min", "C20 C12", "holopy/scattering/scatterer/spherecluster.py", "if cartesian_distance(s1.center, s2.center) < (np.max(s1.r) + np.max(s2.r)):", "if cartesian_distance(s1.center, s2.center) < (np.min(s1.r) + np.min(s2.r)):")
m("c20-last-indicator-wins", "C20", "holopy/scattering/scatterer/scatterer.py", "        for i, ind in reversed(list(enumerate(indicators))):", "        for i, ind in list(enumerate(indicators)):")
# ---- added after the independent seeded rounds (mechanisms the agents found that had no own mutation yet)
m("c12-constraints-ignored", "C12", "holopy/inference/model.py", "            if not constraint.check(par_scat):\n                return -np.inf", "            if not constraint.check(par_scat):\n                pass")
m("c08-mielens-no-conj", "C08 C02", "holopy/scattering/theory/mielens.py", "index_ratio = np.conj(scatterer.n / medium_index)", "index_ratio = scatterer.n / medium_index")
m("c15-alias-numpy-scalars", "C15", "holopy/core/io/serialize.py", "(str, bool, int, float, np.generic)", "(str, bool, int, float)")
m("c04-auto-rule-squared", "C04 C09", "holopy/scattering/interface.py", "max_separation = np.linalg.norm(dx, axis=2).max()", "max_separation = (dx ** 2).sum(axis=2).max()")
m("c07-seed-falsy", "C07", "holopy/core/metadata.py", "    if seed is not None:", "    if seed:")
m("c16-pack-falsy", "C16", "holopy/core/io/io.py", "if val is not None:", "if val:")
m("c18-zero-filter-isclose", "C18", "holopy/core/process/img_proc.py", "xr.where(image > 0, image, np.nan)", "xr.where(np.isclose(image, 0), np.nan, image)")
m("c20-translated-falsy", "C20 C19", "holopy/scattering/scatterer/scatterer.py", "if coord2 is None and np.shape(ensure_array(coord1)) == (3,):", "if not coord2 and np.shape(ensure_array(coord1)) == (3,):")
m("c06-nested-components-dropped", "C06", "holopy/scattering/scatterer/composite.py", "components += s.get_component_list()", "components = s.get_component_list()")
m("c03-asym-over-cext", "C03", "holopy/scattering/theory/mie.py", "asym = 4. * np.pi / (medium_wavevec**2 * cscat)", "asym = 4. * np.pi / (medium_wavevec**2 * cext)")


def sh(cmd, **kw):
    return subprocess.run(cmd, stdout=subprocess.PIPE, stderr=subprocess.STDOUT, text=True, **kw)


def main():
    tier = "quick"
    flt = None
    args = sys.argv[1:]
    if "--tier" in args:
        tier = args[args.index("--tier") + 1]
        del args[args.index("--tier"):args.index("--tier") + 2]
    if args:
        flt = args[0]
    sh(["git", "-C", "/repo", "worktree", "remove", "--force", WT])
    r = sh(["git", "-C", "/repo", "worktree", "add", "--detach", WT, "HEAD"])
    if r.returncode:
        print(r.stdout)
        return 2
    env = dict(os.environ, VF_REPO=WT, VF_NO_EVIDENCE="1")
    try:
        for mu in M:
            if flt and flt not in mu["name"]:
                continue
            path = os.path.join(WT, mu["path"])
            src = open(path).read()
            if src.count(mu["old"]) < 1:
                print("| %s | - | ANCHOR NOT FOUND |" % mu["name"], flush=True)
                continue
            open(path, "w").write(src.replace(mu["old"], mu["new"], mu["count"]))
            res = []
            for pid in mu["props"]:
                t = time.time()
                r = subprocess.run(["./check", pid, "--tier", tier], cwd="/verif", env=env, stdout=subprocess.PIPE, stderr=subprocess.DEVNULL, text=True)
                first = ""
                for line in r.stdout.splitlines():
                    if "witness: mech=" in line:
                        first = line.split("witness: mech=")[1].split(" ")[0]
                        break
                    if line.startswith("INCONCLUSIVE"):
                        first = line[:80]
                res.append("%s:%s%s(%.0fs)" % (pid, {0: "missed", 1: "CAUGHT ", 2: "inconclusive "}.get(r.returncode, "rc%d " % r.returncode), first, time.time() - t))
            open(path, "w").write(src)
            print("| %s | %s | %s |" % (mu["name"], mu["path"].split("/")[-1], "; ".join(res)), flush=True)
    finally:
        sh(["git", "-C", "/repo", "worktree", "remove", "--force", WT])
    return 0


if __name__ == "__main__":
    sys.exit(main())
