#!/bin/sh
# Re-bases stored seeded patches that no longer apply to /repo's HEAD (after a fix: commit touched the same lines):
# 3-way apply in a scratch worktree using the blob ids recorded in the patch, then re-diff.  The edit stays the same.
wt=/tmp/vf_rebase_wt_$$
git -C /repo worktree add -q --detach $wt HEAD || exit 2
for d in /verif/seeded/*/; do
  name=$(basename $d)
  git -C $wt checkout -q -- .
  if git -C $wt apply --check $d/patch.diff 2>/dev/null; then continue; fi
  if git -C $wt apply -3 $d/patch.diff >/dev/null 2>&1 && [ -z "$(git -C $wt diff --name-only --diff-filter=U)" ]; then
    git -C $wt reset -q; git -C $wt diff > $d/patch.diff.new
    if [ -s $d/patch.diff.new ]; then mv $d/patch.diff.new $d/patch.diff; echo "$name rebased (3-way)"; else rm -f $d/patch.diff.new; echo "$name REBASE-EMPTY"; fi
  else
    echo "$name NEEDS-MANUAL-REBASE"; git -C $wt reset -q --hard
  fi
done
git -C /repo worktree remove --force $wt
