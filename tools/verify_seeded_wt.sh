#!/bin/sh
# usage: tools/verify_seeded_wt.sh <out_dir> <ID> [more IDs to run]
# like verify_seeded.sh but never touches /repo: the checks run with VF_REPO
# pointing at a scratch worktree carrying the patch (usable while other checks
# run against /repo).
out=$(realpath "$1"); shift
wt=/tmp/vf_seed_wt_$$
git -C /repo worktree add -q --detach $wt HEAD || exit 2
(cd $wt && git apply "$out/patch.diff") || { echo "PATCH DOES NOT APPLY"; git -C /repo worktree remove --force $wt; exit 2; }
/tmp/mut/baseline $wt | head -3
/tmp/mut/hpy $wt "$out/demo.py" > /tmp/vf_seed_demo_with_$$.txt 2>&1; echo "demo with patch: exit=$? $(tail -1 /tmp/vf_seed_demo_with_$$.txt | cut -c1-200)"
(cd $wt && git apply -R "$out/patch.diff")
/tmp/mut/hpy $wt "$out/demo.py" > /tmp/vf_seed_demo_without_$$.txt 2>&1; echo "demo without patch: exit=$? $(tail -1 /tmp/vf_seed_demo_without_$$.txt | cut -c1-200)"
(cd $wt && git apply "$out/patch.diff")
cd /verif
for id in "$@"; do
  o=$(VF_REPO=$wt VF_NO_EVIDENCE=1 ./check "$id" --tier ${TIER:-quick} 2>/dev/null); rc=$?
  echo "CHECK $id exit=$rc $(echo "$o" | grep -m2 'witness: mech' | cut -c1-260 | tr '\n' ' ')"
done
git -C /repo worktree remove --force $wt
rm -f /tmp/vf_seed_demo_with_$$.txt /tmp/vf_seed_demo_without_$$.txt
