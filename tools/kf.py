#!/usr/bin/env python3
"""maintain known_findings.json
   kf.py known <prop> <key> <what>          add a known (unrepaired) finding
   kf.py fixed <prop> <key> <commit> <what> add a fixed entry (suppresses nothing)
   kf.py repair <prop> <key> <commit>       turn a known entry into a fixed one"""
import json, sys
P = "/verif/known_findings.json"
d = json.load(open(P))
cmd = sys.argv[1]
if cmd == "known":
    _, _, prop, key, what = sys.argv
    d["findings"].append({"property": prop, "key": key, "status": "known", "what": what})
elif cmd == "fixed":
    _, _, prop, key, commit, what = sys.argv
    d["findings"].append({"property": prop, "key": key, "status": "fixed", "commit": commit, "what": "fixed: property=%s %s %s" % (prop, commit, what)})
elif cmd == "repair":
    _, _, prop, key, commit = sys.argv
    n = 0
    for f in d["findings"]:
        if f["property"] == prop and f["key"] == key and f["status"] == "known":
            f["status"] = "fixed"; f["commit"] = commit; f["what"] = "fixed: property=%s %s %s" % (prop, commit, f["what"]); n += 1
    assert n == 1, n
json.dump(d, open(P, "w"), indent=1)
