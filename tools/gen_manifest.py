#!/usr/bin/env python3
"""Regenerate MANIFEST.json from the property modules present in vf/props.
A property is claimed iff vf/props/<id>.py exists and defines LEVEL_TEXT;
everything else is listed under not_applicable with the reason it is not
(yet) claimed.  Run: python3 tools/gen_manifest.py"""
import ast
import json
import os

ROOT = os.path.dirname(os.path.dirname(os.path.abspath(__file__)))
BASE = json.load(open("/root/.vp/BASELINE.json"))

props = [json.loads(l) for l in open(os.path.join(ROOT, "properties.jsonl"))]


def module_consts(path):
    out = {}
    tree = ast.parse(open(path).read())
    for node in tree.body:
        if isinstance(node, ast.Assign) and len(node.targets) == 1 and isinstance(node.targets[0], ast.Name):
            try:
                out[node.targets[0].id] = ast.literal_eval(node.value)
            except Exception:
                pass
    return out


checks, na = [], []
for p in props:
    pid = p["id"]
    path = os.path.join(ROOT, "vf", "props", pid.lower() + ".py")
    c = module_consts(path) if os.path.exists(path) else {}
    if "LEVEL_TEXT" in c:
        checks.append({
            "property_id": pid,
            "quick_cmd": "./check %s --tier quick" % pid,
            "thorough_cmd": "./check %s --tier thorough" % pid,
            "evidence_file": "/verif/evidence/%s.json" % pid,
            "replay_cmd_template": "./check %s --replay {path}" % pid,
            "engine": "vf",
            "level_claimed": {"category": "exploration", "text": c["LEVEL_TEXT"],
                              "design_ref": "DESIGN.md section 2, %s" % pid},
            "level_note": c.get("LEVEL_NOTE", "Trusted: CPython 3.12, numpy, scipy, xarray, gfortran code generation, the checker's reference formulas."),
            "technique": c.get("TECHNIQUE", "runtime monitoring: generated workloads on the real code, contract monitors + offline relational oracle"),
        })
    else:
        na.append({"property_id": pid, "reason": c.get("NA_REASON", "check not built yet in this session (runtime-monitoring design exists in DESIGN.md section 2); not claimed until its monitor runs silent on the unchanged tree")})

manifest = {
    "version": 1,
    "setup_cmd": "/venv/bin/python -m vf.setup",
    "hooks": {
        "guard": "HOLOPY_VERIF",
        "enable": "no source hooks: monitors are attached from the harness to an overlay copy of /repo's working tree (vf/monitors.py); the harness sets HOLOPY_VERIF=1 for its children only",
        "baseline_off_cmd": BASE["cmd"],
        "source_commits": [],
        "add_only": True,
    },
    "engines": [{
        "name": "vf",
        "path": "vf/",
        "serves_properties": [c["property_id"] for c in checks],
        "kind_free_text": "runtime monitors: contract wrappers on public entry points, argument-purity digests, trace + offline relational/differential oracles, process-boundary sentinels + Fortran STOP shim, -fcheck / ASan+UBSan builds of the Fortran extensions",
    }],
    "checks": checks,
    "not_applicable": na,
    "notes": "All checks rebuild an overlay (copy of /repo/holopy working tree + the four Fortran extensions compiled with gfortran) outside /repo and /verif and remove it on exit. Exit 0 held / 1 violation / 2 inconclusive.",
}
with open(os.path.join(ROOT, "MANIFEST.json"), "w") as f:
    json.dump(manifest, f, indent=1)
print("claimed:", [c["property_id"] for c in checks])
print("not claimed:", [n["property_id"] for n in na])
