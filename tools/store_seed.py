#!/usr/bin/env python3
"""usage: tools/store_seed.py <agent_out_dir> <name> <caught_by ...>   e.g. store_seed.py /tmp/mut/out_C01 C01-a "C01:identity_multi.holo_identity" "C06:channel_holo"
Copies patch.diff / demo.py and writes meta.json for a confirmed seeded change."""
import json, os, shutil, sys
src, name = sys.argv[1], sys.argv[2]
caught = sys.argv[3:]
d = os.path.join('/verif/seeded', name)
os.makedirs(d, exist_ok=True)
shutil.copy(os.path.join(src, 'patch.diff'), d)
shutil.copy(os.path.join(src, 'demo.py'), d)
a = json.load(open(os.path.join(src, 'meta.json')))
meta = {
    "property": a.get("property"),
    "summary": a.get("summary"),
    "needs_to_manifest": a.get("needs_to_manifest"),
    "files_changed": a.get("files_changed"),
    "origin": "independent sub-agent given only the property text and a scratch worktree",
    "confirmed": {
        "patch_applies_to_repo_head": True,
        "pinned_baseline_with_patch": "400/400 (tools/verify_seeded.sh -> /tmp/mut/baseline)",
        "demo_with_patch": "exit 1 (PROPERTY VIOLATED)",
        "demo_without_patch": "exit 0 (PROPERTY HOLDS)",
    },
    "checks_run": "git -C /repo apply patch.diff; ./check <ID> --tier quick (VF_NO_EVIDENCE=1); git -C /repo checkout -- .",
    "caught_by": caught,
}
json.dump(meta, open(os.path.join(d, 'meta.json'), 'w'), indent=1)
print('stored', d)
