#!/bin/sh
# Run the pinned test-suite with the guard OFF and compare with BASELINE.json's stable_pass list.
out=$(mktemp /tmp/vf_junit_XXXX.xml)
cd ${VF_REPO:-/repo} && env -u HOLOPY_VERIF /venv/bin/python -m pytest -ra -q -p no:cacheprovider --timeout=900 --continue-on-collection-errors --junitxml=$out >/tmp/vf_baseline.log 2>&1
python3 - "$out" <<'PY'
import json, sys, xml.etree.ElementTree as ET
base = set(json.load(open('/root/.vp/BASELINE.json'))['stable_pass'])
passed = set()
for tc in ET.parse(sys.argv[1]).getroot().iter('testcase'):
    if not any(ch.tag in ('failure', 'error', 'skipped') for ch in tc):
        passed.add(tc.get('classname') + '::' + tc.get('name'))
missing = sorted(base - passed)
print('baseline stable_pass:', len(base), 'now passing of those:', len(base & passed), 'missing:', len(missing))
for m in missing[:20]:
    print('  MISSING', m)
sys.exit(1 if missing else 0)
PY
rc=$?
rm -f $out
exit $rc
