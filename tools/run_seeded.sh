#!/bin/sh
# usage: tools/run_seeded.sh [name-glob]      (default: all of /verif/seeded/*)
# Regression run of the checks against every stored seeded change: each patch is applied in a scratch worktree
# of /repo (VF_REPO points the check at it, /repo itself is not touched), the quick check of the property the
# change was aimed at is run without writing evidence, and CAUGHT / MISSED is reported.
cd /verif
wt=/tmp/vf_seeded_wt_$$
git -C /repo worktree add -q --detach $wt HEAD || exit 2
miss=0
clean_ok=""
for d in seeded/${1:-*}/; do
  name=$(basename $d); id=${name%%-*}
  # a change that breaks another property than the one its author was given is run against that property's check (meta.json: check_with)
  other=$(python3 -c "import json,sys; print(json.load(open('$d/meta.json')).get('check_with',''))" 2>/dev/null); [ -n "$other" ] && id=$other
  if grep -q '"status": "neutralised' $d/meta.json 2>/dev/null; then echo "$name SKIPPED (neutralised by a later repair, see meta.json)"; continue; fi
  if grep -q "\"status\": \"open miss" $d/meta.json 2>/dev/null; then echo "$name OPEN MISS (not caught yet, see meta.json)"; continue; fi
  git -C $wt checkout -q -- . 
  # a seeded change only counts as caught if the same check is silent on the unpatched tree (checked once per property)
  if ! echo " $clean_ok " | grep -q " $id "; then
    VF_REPO=$wt VF_NO_EVIDENCE=1 ./check $id --tier ${TIER:-quick} >/dev/null 2>&1
    if [ $? -ne 0 ]; then echo "$id BASELINE-NOT-CLEAN: the check does not hold on the unpatched tree; results for its seeds mean nothing"; miss=$((miss+1)); fi
    clean_ok="$clean_ok $id"
  fi
  if ! git -C $wt apply /verif/$d/patch.diff 2>/dev/null; then echo "$name PATCH-DOES-NOT-APPLY"; miss=$((miss+1)); continue; fi
  o=$(VF_REPO=$wt VF_NO_EVIDENCE=1 ./check $id --tier ${TIER:-quick} 2>/dev/null); rc=$?
  if [ $rc -eq 1 ]; then echo "$name CAUGHT by $id: $(echo "$o" | grep -a -m1 'witness: mech' | sed 's/.*mech=\([^ ]*\).*/\1/')"
  else echo "$name MISSED by $id (exit $rc)"; miss=$((miss+1)); fi
done
git -C /repo worktree remove --force $wt
echo "seeded changes not caught by their own property's check: $miss"
[ $miss -eq 0 ]
