#!/usr/bin/env python3
"""Cross-validate the checker's reference Mie coefficients (vf/refmie.py) against 40-digit mpmath
Bessel functions.  Run with python3-vt (has mpmath + scipy).  Not part of any registered check;
recorded in DESIGN.md as the calibration of the reference model."""
import sys
import numpy as np
import mpmath as mp
sys.path.insert(0, '/verif')
from vf import refmie
mp.mp.dps = 40


def ab_mp(m, x, ns):
    A, B = [], []
    m = mp.mpmathify(m); x = mp.mpf(x)
    psi = lambda n, z: z * mp.sqrt(mp.pi / (2 * z)) * mp.besselj(n + mp.mpf(1) / 2, z)
    chi = lambda n, z: z * mp.sqrt(mp.pi / (2 * z)) * mp.bessely(n + mp.mpf(1) / 2, z)
    for n in ns:
        xi = psi(n, x) + 1j * chi(n, x)
        dpx = psi(n - 1, x) - n / x * psi(n, x)
        dxi = (psi(n - 1, x) + 1j * chi(n - 1, x)) - n / x * xi
        mx = m * x
        dpm = psi(n - 1, mx) - n / mx * psi(n, mx)
        A.append(complex((m * psi(n, mx) * dpx - psi(n, x) * dpm) / (m * psi(n, mx) * dxi - xi * dpm)))
        B.append(complex((psi(n, mx) * dpx - m * psi(n, x) * dpm) / (psi(n, mx) * dxi - m * xi * dpm)))
    return np.array(A), np.array(B)


worst = 0
for m, x in [(1.24, 100.0), (2.4988, 300.0), (1.33 + 0.01j, 900.0), (1.5, 0.01), (0.8, 30.0), (2.5 + 0.5j, 60.), (1.001, 500.0), (1.05, 1e-3)]:
    an, bn = refmie.mie_ab(m, x)
    N = len(an); ns = list(range(1, N + 1, max(1, N // 30)))
    A, B = ab_mp(m, x, ns); idx = np.array(ns) - 1
    e = max(np.abs(an[idx] - A).max(), np.abs(bn[idx] - B).max())
    worst = max(worst, e)
    print(m, x, N, 'max abs coefficient error %.2e' % e)
print('worst', worst)
sys.exit(0 if worst < 1e-11 else 1)
