"""Arbitrary-precision reference for the Lorenz-Mie coefficients of a homogeneous or layered sphere.

Independent of the code under test in algorithm and arithmetic: the boundary conditions of Bohren & Huffman (ch. 4 and 8.1, generalised to
any number of layers) are solved layer by layer with Riccati-Bessel functions from mpmath at `dps` decimal digits; nothing is recurred.
mpmath is pure Python and is imported straight from the offline wheelhouse (a wheel is a zip archive)."""
import glob
import sys


def _mp():
    try:
        import mpmath
    except ImportError:
        whl = sorted(glob.glob("/opt/veriftools/wheels/mpmath-*.whl"))
        if not whl:
            raise
        sys.path.append(whl[-1])
        import mpmath
    return mpmath


def nstop(x):
    """Wiscombe's criterion as used by the library (so that sums run over the same orders)"""
    import math
    return int(round(x + 4.05 * x ** (1. / 3.) + 2))


def coeffs(ms, xs, nmax=None, dps=60):
    """a_n, b_n (n = 1..nmax) for layer relative indices ms (innermost first) and outer size parameters xs"""
    mp = _mp()
    mp.mp.dps = dps
    ms = [mp.mpc(complex(m).real, complex(m).imag) if not isinstance(m, (tuple, list)) else mp.mpc(m[0], m[1]) for m in ms]
    xs = [mp.mpf(x) for x in xs]
    if nmax is None:
        nmax = nstop(float(xs[-1]))
    half = mp.mpf(1) / 2

    def psi(n, z):
        return mp.sqrt(mp.pi * z / 2) * mp.besselj(n + half, z)

    def chi(n, z):
        return -mp.sqrt(mp.pi * z / 2) * mp.bessely(n + half, z)

    def d(f, n, z):
        return f(n - 1, z) - n * f(n, z) / z

    an, bn = [], []
    for n in range(1, nmax + 1):
        z = ms[0] * xs[0]
        ha = hb = d(psi, n, z) / psi(n, z)
        for l in range(1, len(ms)):
            z1, z2 = ms[l] * xs[l - 1], ms[l] * xs[l]
            out = []
            for h, t in ((ha, ha * ms[l] / ms[l - 1]), (hb, hb * ms[l - 1] / ms[l])):
                A = (d(psi, n, z1) - t * psi(n, z1)) / (d(chi, n, z1) - t * chi(n, z1))
                out.append((d(psi, n, z2) - A * d(chi, n, z2)) / (psi(n, z2) - A * chi(n, z2)))
            ha, hb = out
        x = xs[-1]
        m = ms[-1]
        ps, ch = psi(n, x), chi(n, x)
        dps_, dch = d(psi, n, x), d(chi, n, x)
        xi, dxi = ps - 1j * ch, dps_ - 1j * dch
        an.append(complex((ha / m * ps - dps_) / (ha / m * xi - dxi)))
        bn.append(complex((hb * m * ps - dps_) / (hb * m * xi - dxi)))
    return an, bn


def efficiencies(ms, xs, nmax=None, dps=60):
    """(Qsca, Qext, g) from the reference coefficients, summed in double precision over exactly rounded coefficients"""
    import math
    an, bn = coeffs(ms, xs, nmax, dps)
    x = float(xs[-1])
    N = len(an)
    qs = sum((2 * n + 1) * (abs(an[n - 1]) ** 2 + abs(bn[n - 1]) ** 2) for n in range(1, N + 1)) * 2 / x ** 2
    qe = sum((2 * n + 1) * (an[n - 1] + bn[n - 1]).real for n in range(1, N + 1)) * 2 / x ** 2
    g = 0.0
    for n in range(1, N + 1):
        if n < N:
            g += n * (n + 2) / (n + 1) * (an[n - 1] * an[n].conjugate() + bn[n - 1] * bn[n].conjugate()).real
        g += (2 * n + 1) / (n * (n + 1)) * (an[n - 1] * bn[n - 1].conjugate()).real
    g *= 4 / (x ** 2 * qs) if qs else 0.0
    return qs, qe, g


if __name__ == "__main__":
    import json
    req = json.load(sys.stdin)
    an, bn = coeffs(req["m"], req["x"], req.get("nmax"), req.get("dps", 60))
    json.dump({"an": [[c.real, c.imag] for c in an], "bn": [[c.real, c.imag] for c in bn]}, sys.stdout)
