"""Helpers shared by property modules (run inside the child unless noted)."""
import hashlib
import math

import numpy as np


def rng_for(*key):
    h = hashlib.sha256(repr(key).encode()).digest()
    return np.random.default_rng(int.from_bytes(h[:8], "little"))


def vals(a):
    return np.asarray(getattr(a, "values", a))


def relmax(a, b):
    """max|a-b| / max(max|b|, tiny): field-level relative error."""
    a, b = vals(a), vals(b)
    if a.shape != b.shape:
        return float("inf")
    if a.size == 0:
        return 0.0
    d = np.abs(a - b)
    if not np.all(np.isfinite(d)):
        return float("inf")
    return float(d.max() / max(float(np.abs(b).max()), 1e-300))


def absmax(a, b):
    a, b = vals(a), vals(b)
    if a.shape != b.shape:
        return float("inf")
    if a.size == 0:
        return 0.0
    d = np.abs(a - b)
    if not np.all(np.isfinite(d)):
        return float("inf")
    return float(d.max())


def loguniform(rng, lo, hi, size=None):
    return np.exp(rng.uniform(math.log(lo), math.log(hi), size))


def fnum(x):
    """float for JSON (nan/inf -> strings are avoided: use large sentinel)."""
    x = float(x)
    if x != x:
        return 1e308
    if x == float("inf"):
        return 1e308
    if x == float("-inf"):
        return -1e308
    return x


def sha(a):
    a = np.ascontiguousarray(vals(a))
    return hashlib.sha1(a.tobytes() + repr((a.shape, str(a.dtype))).encode()).hexdigest()


class Tol:
    """Named tolerance table -> judge helper."""

    def __init__(self, **tols):
        self.tols = tols

    def check(self, resid, prefix=""):
        out = []
        for k, v in resid.items():
            base = k.split("@")[0]
            if base not in self.tols:
                continue
            t = self.tols[base]
            if not (v <= t):
                out.append({"mech": prefix + base, "detail": "%s = %.3e > tol %.1e" % (k, v, t)})
        return out
