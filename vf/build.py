"""Build "the build under test": an overlay copy of /repo's *working tree*
holopy package plus its four Fortran extensions compiled by hand (the
sandbox has no meson/ninja; see DESIGN 0.1).

Flavours (one sanitizer family per build):
  opt  : -O2                        what users get; value oracles run here
  chk  : -O1 -g -fcheck=bounds,do,mem,pointer + STOP shim
  asan : -O1 -g -fsanitize=address,undefined   (run with LD_PRELOAD)

Compiled extensions are cached content-addressed (sha256 over every file in
the Fortran source directories + flags + compiler version + shim source) in
/verif/.cache/ext/<key>/ -- an accelerator only: python sources are always
re-copied from the working tree and any edit of a Fortran file changes the key.
"""
import hashlib
import os
import shutil
import subprocess
import sys
import sysconfig
import tempfile
import atexit
import concurrent.futures as cf

REPO = os.environ.get("VF_REPO", "/repo")
VERIF = os.path.dirname(os.path.dirname(os.path.abspath(__file__)))
CACHE = os.path.join(VERIF, ".cache", "ext")
PY = "/venv/bin/python"

MIE = "holopy/scattering/theory/mie_f"
TM = "holopy/scattering/theory/tmatrix_f"
TP = "holopy/scattering/third_party"

EXTS = {
    # name: (dest dir, [sources relative to repo])
    "uts_scsmfo": (MIE, [MIE + "/uts_scsmfo.for", TP + "/SBESJY.F"]),
    "scsmfo_min": (MIE, [MIE + "/scsmfo_min.for"]),
    "mieangfuncs": (MIE, [MIE + "/mieangfuncs.f90", MIE + "/uts_scsmfo.for",
                          TP + "/SBESJY.F", TP + "/csphjy.for"]),
    "S": (TM, [TM + "/S.f", TM + "/ampld.lp.f", TM + "/lpd.f"]),
}

FLAGS = {
    "opt": (["-O2", "-fPIC"], ["-O2", "-fPIC", "-w"], []),
    "chk": (["-O1", "-g", "-fPIC"],
            ["-O1", "-g", "-fPIC", "-w", "-fcheck=bounds,do,mem,pointer"], []),
    "asan": (["-O1", "-g", "-fPIC", "-fsanitize=address,undefined",
              "-fno-omit-frame-pointer"],
             ["-O1", "-g", "-fPIC", "-w", "-fsanitize=address,undefined",
              "-fno-omit-frame-pointer"],
             ["-fsanitize=address,undefined"]),
}

# C shim linked into chk/asan extension builds: Fortran STOP would otherwise
# end the interpreter with status 0 and no message.  The shim makes the event
# observable (marker + backtrace) and distinguishable (exit 86).
SHIM_C = r"""
#include <stdio.h>
#include <stdlib.h>
#include <unistd.h>
#include <execinfo.h>
static void vf_die(const char *what, int code) {
    void *bt[32]; int n;
    fprintf(stderr, "\nVERIF-FORTRAN-STOP kind=%s code=%d\n", what, code);
    n = backtrace(bt, 32);
    backtrace_symbols_fd(bt, n, 2);
    fprintf(stderr, "VERIF-FORTRAN-STOP-END\n");
    fflush(stderr);
    _exit(86);
}
void _gfortran_stop_numeric(int code, int quiet) { vf_die("stop_numeric", code); }
void _gfortran_stop_string(const char *s, size_t len, int quiet) { vf_die("stop_string", 0); }
void _gfortran_error_stop_numeric(int code, int quiet) { vf_die("error_stop_numeric", code); }
void _gfortran_error_stop_string(const char *s, size_t len, int quiet) { vf_die("error_stop_string", 0); }
"""


def _sh(cmd, cwd, env=None):
    r = subprocess.run(cmd, cwd=cwd, stdout=subprocess.PIPE,
                       stderr=subprocess.STDOUT, text=True, env=env)
    if r.returncode != 0:
        raise RuntimeError("build step failed: %s\n%s" % (" ".join(cmd), r.stdout[-4000:]))
    return r.stdout


_tool_ver = None


def tool_versions():
    global _tool_ver
    if _tool_ver is None:
        g = subprocess.run(["gfortran", "--version"], stdout=subprocess.PIPE, text=True).stdout.splitlines()[0]
        c = subprocess.run(["gcc", "--version"], stdout=subprocess.PIPE, text=True).stdout.splitlines()[0]
        n = subprocess.run([PY, "-c", "import numpy,sys;print(numpy.__version__,sys.version)"],
                           stdout=subprocess.PIPE, text=True).stdout.strip()
        _tool_ver = g + "|" + c + "|" + n
    return _tool_ver


def _fortran_dir_digest(repo):
    h = hashlib.sha256()
    for d in (MIE, TM, TP):
        full = os.path.join(repo, d)
        for fn in sorted(os.listdir(full)):
            low = fn.lower()
            if low.endswith((".f", ".for", ".f90", ".inc", ".h")):
                h.update(fn.encode() + b"\0")
                with open(os.path.join(full, fn), "rb") as f:
                    h.update(f.read())
                h.update(b"\1")
    return h.hexdigest()


def ext_key(name, flavour, repo):
    h = hashlib.sha256()
    h.update(("%s|%s|%s|%s|v3" % (name, flavour, FLAGS[flavour], tool_versions())).encode())
    h.update(_fortran_dir_digest(repo).encode())
    h.update(SHIM_C.encode())
    return h.hexdigest()[:24]


def _py_includes():
    inc = sysconfig.get_paths()["include"]
    out = subprocess.run([PY, "-c",
                          "import numpy,numpy.f2py,os,sysconfig;print(sysconfig.get_paths()['include']);print(numpy.get_include());print(os.path.join(os.path.dirname(numpy.f2py.__file__),'src'))"],
                         stdout=subprocess.PIPE, text=True).stdout.split()
    return out


def build_ext(name, flavour, repo=REPO):
    """Return path of a compiled .so for (name, flavour), from cache or fresh."""
    key = ext_key(name, flavour, repo)
    outdir = os.path.join(CACHE, key)
    soname = name + ".cpython-312-x86_64-linux-gnu.so"
    target = os.path.join(outdir, soname)
    if os.path.exists(target):
        return target
    cflags, fflags, ldflags = FLAGS[flavour]
    destdir, srcs = EXTS[name]
    work = tempfile.mkdtemp(prefix="vfb_%s_%s_" % (name, flavour))
    try:
        # copy the whole fortran dirs (include files such as ampld.par.f)
        local = []
        for d in (MIE, TM, TP):
            for fn in os.listdir(os.path.join(repo, d)):
                if fn.lower().endswith((".f", ".for", ".f90", ".inc", ".h")):
                    shutil.copy(os.path.join(repo, d, fn), os.path.join(work, fn))
        local = [os.path.basename(s) for s in srcs]
        _sh([PY, "-m", "numpy.f2py"] + local + ["-m", name, "--lower", "--build-dir", "."], work)
        pyinc, npinc, f2pysrc = _py_includes()
        shutil.copy(os.path.join(f2pysrc, "fortranobject.c"), work)
        _sh(["gcc"] + cflags + ["-DNPY_NO_DEPRECATED_API=NPY_1_7_API_VERSION",
                                "-I" + pyinc, "-I" + npinc, "-I" + f2pysrc, "-c",
                                name + "module.c", "fortranobject.c"], work)
        fsrc = list(local)
        wrap = name + "-f2pywrappers.f"
        if os.path.exists(os.path.join(work, wrap)):
            fsrc.append(wrap)
        wrap2 = name + "-f2pywrappers2.f90"
        if os.path.exists(os.path.join(work, wrap2)):
            fsrc.append(wrap2)
        _sh(["gfortran"] + fflags + ["-c"] + fsrc, work)
        objs = [f for f in os.listdir(work) if f.endswith(".o")]
        if flavour in ("chk", "asan"):
            with open(os.path.join(work, "vf_shim.c"), "w") as f:
                f.write(SHIM_C)
            _sh(["gcc"] + cflags + ["-c", "vf_shim.c"], work)
            objs.append("vf_shim.o")
        _sh(["gfortran", "-shared"] + ldflags + ["-o", soname] + sorted(set(objs)) + ["-lquadmath"], work)
        os.makedirs(outdir, exist_ok=True)
        tmp = target + ".tmp%d" % os.getpid()
        shutil.copy(os.path.join(work, soname), tmp)
        os.replace(tmp, target)
    finally:
        shutil.rmtree(work, ignore_errors=True)
    _prune_cache()
    return target


def _prune_cache(keep=40):
    try:
        ents = [os.path.join(CACHE, d) for d in os.listdir(CACHE)]
        ents.sort(key=lambda p: os.path.getmtime(p))
        for p in ents[:-keep]:
            shutil.rmtree(p, ignore_errors=True)
    except OSError:
        pass


_overlays = []


def _cleanup():
    for d in _overlays:
        shutil.rmtree(d, ignore_errors=True)


atexit.register(_cleanup)


def make_overlay(flavour="opt", repo=REPO, keep=False):
    """Copy repo/holopy (working tree) into a scratch dir outside /repo and
    /verif, drop the compiled extensions in, return the overlay root
    (to be put first on PYTHONPATH)."""
    with cf.ThreadPoolExecutor(4) as ex:
        futs = {n: ex.submit(build_ext, n, flavour, repo) for n in EXTS}
        sos = {n: f.result() for n, f in futs.items()}
    root = tempfile.mkdtemp(prefix="vf_overlay_%s_" % flavour)
    if not keep:
        _overlays.append(root)
    dst = os.path.join(root, "holopy")
    shutil.copytree(os.path.join(repo, "holopy"), dst,
                    ignore=shutil.ignore_patterns("*.pyc", "__pycache__", "*.so"))
    for n, so in sos.items():
        shutil.copy(so, os.path.join(root, EXTS[n][0], os.path.basename(so)))
    return root


def san_env(flavour):
    """Extra environment for running python against an overlay of this flavour."""
    env = {}
    if flavour == "asan":
        def lib(n):
            return subprocess.run(["gcc", "-print-file-name=" + n], stdout=subprocess.PIPE, text=True).stdout.strip()
        env["LD_PRELOAD"] = lib("libasan.so") + " " + lib("libubsan.so")
        env["ASAN_OPTIONS"] = "detect_leaks=0:halt_on_error=0:abort_on_error=0"
        env["UBSAN_OPTIONS"] = "print_stacktrace=1:halt_on_error=0"
    return env


if __name__ == "__main__":
    import time
    fl = sys.argv[1:] or ["opt"]
    for f in fl:
        t = time.time()
        r = make_overlay(f, keep=False)
        print(f, "overlay", r, "%.1fs" % (time.time() - t))
