"""Workload child: imports the overlay holopy, installs monitors, runs the
cases of one shard, writes BEGIN/END sentinels + observations as JSONL."""
import importlib
import json
import os
import sys
import threading
import time
import traceback
import warnings


def main():
    shard_path, out_path = sys.argv[1], sys.argv[2]
    with open(shard_path) as f:
        shard = json.load(f)
    out = open(out_path, "a", buffering=1)

    def emit(rec):
        out.write(json.dumps(rec, default=_jd) + "\n")
        out.flush()
        os.fsync(out.fileno())

    warnings.simplefilter("ignore")
    overlay = os.path.realpath(shard["overlay"])
    try:
        import holopy
        hf = os.path.realpath(holopy.__file__)
        if not hf.startswith(overlay + os.sep):
            emit({"ev": "HYGIENE", "msg": "holopy imported from %s, not overlay %s" % (hf, overlay)})
            return 0
        P = importlib.import_module("vf.props." + shard["prop"].lower())
        if getattr(P, "NEEDS_FORTRAN", True):
            from holopy.scattering.theory import mie
            if not getattr(mie, "_COMPILED_FORTRAN", True) is True:
                pass
            from holopy.scattering.theory.mie_f import mieangfuncs, uts_scsmfo, scsmfo_min  # noqa
            from holopy.scattering.theory.tmatrix_f import S  # noqa
    except Exception:
        emit({"ev": "HYGIENE", "msg": "import failed: " + traceback.format_exc()[-1500:]})
        return 0

    from vf import monitors
    if getattr(P, "INSTALL_MONITORS", True):
        monitors.install()
    if hasattr(P, "child_setup"):
        P.child_setup(shard)

    # per-case watchdog: Fortran loops cannot be interrupted from Python
    state = {"id": None, "deadline": None}

    def watchdog():
        while True:
            time.sleep(0.5)
            d = state["deadline"]
            if d is not None and time.time() > d:
                emit({"ev": "TIMEOUT", "id": state["id"]})
                os._exit(87)
    threading.Thread(target=watchdog, daemon=True).start()

    default_to = shard.get("case_timeout", 300)
    for case in shard["cases"]:
        emit({"ev": "BEGIN", "id": case["id"]})
        state["id"] = case["id"]
        state["deadline"] = time.time() + case.get("timeout", default_to)
        monitors.take_events()
        rec = {"ev": "END", "id": case["id"]}
        t = time.time()
        try:
            with warnings.catch_warnings():
                warnings.simplefilter("ignore")
                rec["obs"] = P.run_case(case)
        except Exception as e:
            rec["exception"] = {"type": type(e).__name__, "msg": str(e)[:500],
                                "tb": traceback.format_exc()[-3000:]}
        state["deadline"] = None
        rec["mon"] = monitors.take_events()
        rec["t"] = round(time.time() - t, 4)
        emit(rec)
    reach = {}
    if hasattr(P, "child_reach"):
        reach = P.child_reach()
    emit({"ev": "DONE", "counters": monitors.COUNTERS, "aliases": monitors.ALIASES, "reach": reach})
    out.close()
    sys.stdout.flush()
    sys.stderr.flush()
    os._exit(0)


def _jd(o):
    try:
        import numpy as np
        if isinstance(o, np.generic):
            return o.item()
        if isinstance(o, np.ndarray):
            return o.tolist()
    except Exception:
        pass
    if isinstance(o, complex):
        return {"re": o.real, "im": o.imag}
    return repr(o)


if __name__ == "__main__":
    sys.exit(main())
