"""Independent textbook Lorenz-Mie series (Bohren & Huffman ch. 4), written for
the checker; shares no code with the repository.  BH conventions
(time dependence exp(-i w t), S1 = perpendicular, S2 = parallel)."""
import numpy as np
from scipy.special import spherical_jn, spherical_yn


def nstop(x):
    return int(np.round(x + 4.05 * x ** (1 / 3.) + 2))


def mie_ab(m, x, nmax=None):
    """BH eq 4.88: logarithmic derivative D_n(mx) by downward recurrence, psi/xi from scipy."""
    if nmax is None:
        nmax = nstop(x)
    mx = m * x
    # start the downward recurrence well beyond the transition region |mx| + O(|mx|^(1/3))
    nmx = int(max(nmax, abs(mx)) + 8 * abs(mx) ** (1 / 3.) + 80)
    D = np.zeros(nmx + 1, dtype=complex)
    for n in range(nmx, 0, -1):
        D[n - 1] = n / mx - 1.0 / (D[n] + n / mx)
    n = np.arange(1, nmax + 1)
    jn = spherical_jn(np.arange(0, nmax + 1), x)
    yn = spherical_yn(np.arange(0, nmax + 1), x)
    psi = x * jn
    xi = x * (jn + 1j * yn)
    Dn = D[1:nmax + 1]
    an = ((Dn / m + n / x) * psi[1:] - psi[:-1]) / ((Dn / m + n / x) * xi[1:] - xi[:-1])
    bn = ((Dn * m + n / x) * psi[1:] - psi[:-1]) / ((Dn * m + n / x) * xi[1:] - xi[:-1])
    return an, bn


def pitau(theta, nmax):
    mu = np.cos(np.atleast_1d(theta))
    pi = np.zeros((nmax + 1, mu.size))
    tau = np.zeros_like(pi)
    pi[1] = 1
    tau[1] = mu
    for n in range(2, nmax + 1):
        pi[n] = (2 * n - 1) / (n - 1) * mu * pi[n - 1] - n / (n - 1) * pi[n - 2]
        tau[n] = n * mu * pi[n] - (n + 1) * pi[n - 1]
    return pi[1:], tau[1:]


def S12(m, x, theta):
    an, bn = mie_ab(m, x)
    N = len(an)
    n = np.arange(1, N + 1)[:, None]
    pi, tau = pitau(theta, N)
    c = (2 * n + 1) / (n * (n + 1))
    S1 = (c * (an[:, None] * pi + bn[:, None] * tau)).sum(0)
    S2 = (c * (an[:, None] * tau + bn[:, None] * pi)).sum(0)
    return S1, S2


def qs(m, x):
    """efficiencies Qsca, Qext and asymmetry g"""
    an, bn = mie_ab(m, x)
    n = np.arange(1, len(an) + 1)
    qsca = 2 / x ** 2 * ((2 * n + 1) * (abs(an) ** 2 + abs(bn) ** 2)).sum()
    qext = 2 / x ** 2 * ((2 * n + 1) * (an + bn).real).sum()
    g = 4 / (x ** 2 * qsca) * ((n[:-1] * (n[:-1] + 2) / (n[:-1] + 1) * (an[:-1] * an[1:].conj() + bn[:-1] * bn[1:].conj()).real).sum()
                               + ((2 * n + 1) / (n * (n + 1)) * (an * bn.conj()).real).sum())
    return qsca, qext, g


def bh_fields(m, x, kr, theta, phi, pol, radial=True, far=False):
    """BH eq 4.45: scattered field of a unit-amplitude plane wave polarised along pol=(px,py),
    at spherical positions (kr, theta, phi) in the particle frame (z along propagation).
    Returns cartesian components (3, N) in that frame.  far=True uses the asymptotic
    radial functions (xi_n -> (-i)^(n+1) e^{ikr}, xi_n' -> (-i)^n e^{ikr})."""
    an, bn = mie_ab(m, x)
    N = len(an)
    n = np.arange(1, N + 1)[:, None]
    pi, tau = pitau(theta, N)
    En = (1j ** n) * (2 * n + 1) / (n * (n + 1))
    kr = np.asarray(kr, dtype=float)
    h = spherical_jn(n, kr[None, :]) + 1j * spherical_yn(n, kr[None, :])
    dh = spherical_jn(n, kr[None, :], derivative=True) + 1j * spherical_yn(n, kr[None, :], derivative=True)
    xi_full = kr * h
    if far:   # asymptotic tangential dependence; the radial (non-radiative) component keeps the full function
        xi = (-1j) ** (n + 1) * np.exp(1j * kr)[None, :]
        dxi = (-1j) ** n * np.exp(1j * kr)[None, :]
    else:
        xi = xi_full
        dxi = h + kr * dh
    out = np.zeros((3, len(kr)), complex)
    st, ct, sp, cp = np.sin(theta), np.cos(theta), np.sin(phi), np.cos(phi)
    for (p, ph) in [(pol[0], phi), (pol[1], phi - np.pi / 2)]:
        c, s = np.cos(ph), np.sin(ph)
        Eth = c / kr * (En * (1j * an[:, None] * dxi * tau - bn[:, None] * xi * pi)).sum(0)
        Eph = s / kr * (En * (bn[:, None] * xi * tau - 1j * an[:, None] * dxi * pi)).sum(0)
        Er = c / kr ** 2 * (1j * En * an[:, None] * n * (n + 1) * np.sin(theta) * pi * xi_full).sum(0) if radial else 0 * Eth
        out[0] += p * (Er * st * cp + Eth * ct * cp - Eph * sp)
        out[1] += p * (Er * st * sp + Eth * ct * sp + Eph * cp)
        out[2] += p * (Er * ct - Eth * st)
    return out
