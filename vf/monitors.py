"""In-process monitors, installed by the child on the *overlay* copy of holopy.

M-contract : postconditions on public entry points (single-execution facts)
M-purity   : deep digest of every argument before/after the call
M-trace    : per-function evaluation counters (zero evaluations of a deciding
             monitor => the check is inconclusive)
M-rng      : digest of numpy's global RNG state around calls

Monitors never raise into the code under test: they append events to
EVENTS, which the child attaches to the current case.
"""
import functools
import hashlib
import sys
import types

import math
import numpy as np

EVENTS = []          # events of the current case
COUNTERS = {}        # func name -> number of monitored evaluations
ALIASES = {}         # func name -> number of rebound aliases
_installed = False


def event(name, **kw):
    kw["name"] = name
    EVENTS.append(kw)


def take_events():
    ev = list(EVENTS)
    del EVENTS[:]
    return ev


# --------------------------------------------------------------------------
# deep digest (M-purity)

def _upd(h, b):
    h.update(b)
    h.update(b"|")


def _digest_into(h, obj, depth=0, seen=None):
    import xarray as xr
    if seen is None:
        seen = set()
    if depth > 12:
        _upd(h, b"<deep>")
        return
    if obj is None or isinstance(obj, (bool, int, float, complex, str, bytes)):
        _upd(h, repr((type(obj).__name__, obj)).encode())
    elif isinstance(obj, np.generic):
        _upd(h, repr((type(obj).__name__, obj.item() if obj.dtype.kind != 'V' else obj.tobytes())).encode())
    elif isinstance(obj, np.ndarray):
        _upd(h, repr((obj.shape, str(obj.dtype))).encode())
        if obj.dtype == object:
            for o in obj.ravel():
                _digest_into(h, o, depth + 1, seen)
        else:
            _upd(h, np.ascontiguousarray(obj).tobytes())
    elif isinstance(obj, xr.DataArray):
        _upd(h, b"DA")
        _upd(h, repr((obj.dims, obj.name)).encode())
        _digest_into(h, obj.values, depth + 1, seen)
        for k in sorted(obj.coords, key=str):
            _upd(h, str(k).encode())
            c = obj.coords[k]
            _upd(h, repr(c.dims).encode())
            try:
                _digest_into(h, np.asarray(c.values), depth + 1, seen)
            except Exception:
                _upd(h, repr(c.values).encode())
        for k in sorted(obj.attrs, key=str):
            _upd(h, str(k).encode())
            _digest_into(h, obj.attrs[k], depth + 1, seen)
    elif isinstance(obj, dict):
        _upd(h, b"dict")
        for k in sorted(obj, key=repr):
            _upd(h, repr(k).encode())
            _digest_into(h, obj[k], depth + 1, seen)
    elif isinstance(obj, (list, tuple)):
        _upd(h, type(obj).__name__.encode())
        for o in obj:
            _digest_into(h, o, depth + 1, seen)
    elif isinstance(obj, (types.FunctionType, types.BuiltinFunctionType, type, np.ufunc)):
        _upd(h, repr(getattr(obj, "__name__", obj)).encode())
    elif hasattr(obj, "__dict__"):
        if id(obj) in seen:
            _upd(h, b"<cycle>")
            return
        seen.add(id(obj))
        _upd(h, type(obj).__name__.encode())
        d = obj.__dict__
        for k in sorted(d):
            _upd(h, k.encode())
            _digest_into(h, d[k], depth + 1, seen)
    else:
        _upd(h, repr(obj).encode())


def digest(obj):
    h = hashlib.sha1()
    _digest_into(h, obj)
    return h.hexdigest()


def rng_digest():
    st = np.random.get_state()
    h = hashlib.sha1()
    h.update(st[1].tobytes())
    h.update(repr(st[2:]).encode())
    return h.hexdigest()


# --------------------------------------------------------------------------
# rebinding

def rebind_all(orig, wrapper, prefix="holopy"):
    n = 0
    for name, mod in list(sys.modules.items()):
        if mod is None or not (name == prefix or name.startswith(prefix + ".")):
            continue
        for attr, val in list(vars(mod).items()):
            if val is orig:
                setattr(mod, attr, wrapper)
                n += 1
    return n


def monitor(fname, post=None, pure_args=True, watch_rng=None):
    """Build a wrapper factory for function `fname`.
    post(args, kwargs, result) -> list of (name, detail) violations.
    watch_rng: None (don't care), 'unchanged' (must not consume global RNG)."""
    def deco(orig):
        @functools.wraps(orig)
        def wrapper(*args, **kwargs):
            COUNTERS[fname] = COUNTERS.get(fname, 0) + 1
            before = None
            if pure_args:
                try:
                    before = [digest(a) for a in args] + [digest(kwargs[k]) for k in sorted(kwargs)]
                except Exception as e:  # digest failure is a monitor problem, not a violation
                    before = None
                    event("monitor.digest_failed", func=fname, error=repr(e))
            r0 = rng_digest() if watch_rng else None
            try:
                result = orig(*args, **kwargs)
            except BaseException:
                if before is not None:
                    _purity_after(fname, args, kwargs, before, raised=True)
                raise
            if before is not None:
                _purity_after(fname, args, kwargs, before, raised=False)
            if watch_rng == "unchanged" and rng_digest() != r0:
                event("contract.%s.consumed_global_rng" % fname, func=fname)
            if post is not None:
                try:
                    for nm, detail in post(args, kwargs, result) or []:
                        event("contract.%s.%s" % (fname, nm), func=fname, detail=detail)
                except Exception as e:
                    event("monitor.post_failed", func=fname, error=repr(e))
            return result
        wrapper.__vf_orig__ = orig
        return wrapper
    return deco


def _purity_after(fname, args, kwargs, before, raised):
    after = [digest(a) for a in args] + [digest(kwargs[k]) for k in sorted(kwargs)]
    names = ["arg%d" % i for i in range(len(args))] + sorted(kwargs)
    for nm, b, a in zip(names, before, after):
        if a != b:
            event("contract.%s.input_mutated" % fname, func=fname, arg=nm, raised=raised)


# --------------------------------------------------------------------------
# postconditions for the scattering entry points

def _argmap(argnames, args, kwargs, defaults=None):
    m = dict(defaults or {})
    for n, a in zip(argnames, args):
        m[n] = a
    m.update(kwargs)
    return m


def _coords_match(detector, result):
    """Every spatial coordinate of the result equals the detector's."""
    bad = []
    import xarray as xr
    if "point" in detector.dims:
        keys = [k for k in ("x", "y", "z", "r", "theta", "phi") if k in detector.coords]
        if "point" not in result.dims or result.sizes["point"] != detector.sizes["point"]:
            return ["point dim missing or wrong length"]
        for k in keys:
            if k not in result.coords or not np.array_equal(np.asarray(result[k].values), np.asarray(detector[k].values)):
                bad.append("coord %s differs" % k)
    elif "flat" in detector.dims:
        if "flat" not in result.dims or result.sizes["flat"] != detector.sizes["flat"]:
            return ["flat dim missing or wrong length"]
        for k in ("x", "y", "z"):
            if k not in result.coords or not np.array_equal(np.asarray(result[k].values), np.asarray(detector[k].values)):
                bad.append("coord %s differs" % k)
    else:
        for k in ("x", "y", "z"):
            if k in detector.dims:
                if k not in result.dims:
                    bad.append("dim %s missing" % k)
                elif not np.array_equal(np.asarray(result[k].values), np.asarray(detector[k].values)):
                    bad.append("coord %s differs" % k)
    return bad


def _as_plain(v):
    import xarray as xr
    if isinstance(v, xr.DataArray):
        return np.asarray(v.values)
    return v


def _attr_equal(a, b):
    import xarray as xr
    if a is None or b is None:
        return a is None and b is None
    if isinstance(a, xr.DataArray) and isinstance(b, xr.DataArray):
        try:
            if set(a.dims) != set(b.dims):
                return False
            b2 = b.transpose(*a.dims)
            for d in a.dims:
                if not np.array_equal(np.asarray(a[d].values), np.asarray(b2[d].values)):
                    # allow label permutation
                    b2 = b2.sel({d: a[d].values})
            return np.array_equal(a.values, b2.values)
        except Exception:
            return False
    try:
        return bool(np.array_equal(np.asarray(_as_plain(a)), np.asarray(_as_plain(b))))
    except Exception:
        return a == b


def _expected_pol(pol):
    """unit-length 3-vector(s) for a passed polarization (plain sequences only)."""
    import xarray as xr
    if pol is None or pol is False or isinstance(pol, (dict, xr.DataArray)):
        return None
    p = np.asarray(pol, dtype=float)
    if p.shape == (2,):
        p = np.append(p, 0.0)
    if p.shape != (3,):
        return None
    # (scaled first: the squares of very large / very small components leave the range of a double)
    m = float(np.max(np.abs(p)))
    if not (m > 0 and np.isfinite(m)):
        return None
    q = p / m
    return q / math.sqrt(float(np.sum(q ** 2)))


def _optics_post(am, result, want_pol=True):
    out = []
    det = am["detector"]
    mi, wl, pol = am.get("medium_index"), am.get("illum_wavelen"), am.get("illum_polarization")
    import xarray as xr
    # medium index
    exp_mi = mi if mi is not None else det.attrs.get("medium_index")
    if not _attr_equal(result.attrs.get("medium_index"), exp_mi):
        out.append(("attrs_medium_index", "got %r expected %r" % (result.attrs.get("medium_index"), exp_mi)))
    if not isinstance(wl, dict):
        exp_wl = wl if wl is not None else det.attrs.get("illum_wavelen")
        got = result.attrs.get("illum_wavelen")
        g = np.asarray(_as_plain(got)).ravel() if got is not None else None
        e = np.asarray(_as_plain(exp_wl)).ravel() if exp_wl is not None else None
        if g is None or e is None or not (np.array_equal(g, e) or (e.size == 1 and np.all(g == e[0]))):
            out.append(("attrs_illum_wavelen", "got %r expected %r" % (got, exp_wl)))
    if want_pol:
        ep = _expected_pol(pol)
        got = result.attrs.get("illum_polarization")
        if ep is not None:
            if got is None:
                out.append(("attrs_illum_polarization", "missing"))
            else:
                g = np.asarray(_as_plain(got), dtype=float)
                if g.shape == (3,) and not np.allclose(g, ep, rtol=0, atol=4e-16):
                    out.append(("attrs_illum_polarization", "got %r expected %r" % (g.tolist(), ep.tolist())))
        if got is not None:
            g = np.asarray(_as_plain(got), dtype=float)
            if g.ndim == 1:
                nrm = float(np.sqrt(np.sum(g ** 2)))
                if abs(nrm - 1) > 1e-14:
                    out.append(("polarization_not_unit", "norm %r" % nrm))
    # other detector attrs survive
    for k, v in det.attrs.items():
        if k in ("medium_index", "illum_wavelen", "illum_polarization"):
            continue
        if v is None and result.attrs.get(k) is None:
            continue
        if k not in result.attrs or digest(result.attrs[k]) != digest(v):
            out.append(("attrs_lost", "attr %s: got %r expected %r" % (k, result.attrs.get(k), v)))
    return out


CALC_ARGS = ["detector", "scatterer", "medium_index", "illum_wavelen", "illum_polarization", "theory", "scaling"]
SM_ARGS = ["detector", "scatterer", "medium_index", "illum_wavelen", "theory"]


def _post_calc(kind):
    def post(args, kwargs, result):
        out = []
        am = _argmap(SM_ARGS if kind == "scat_matrix" else CALC_ARGS, args, kwargs)
        det = am["detector"]
        vals = np.asarray(result.values)
        if not np.all(np.isfinite(vals)):
            out.append(("nonfinite", "%d non-finite values" % int((~np.isfinite(vals)).sum())))
        for b in _coords_match(det, result):
            out.append(("coords", b))
        if kind in ("holo", "intensity"):
            if np.iscomplexobj(vals):
                out.append(("complex_result", str(vals.dtype)))
            if vals.size and vals.min() < 0:
                out.append(("negative", repr(float(vals.min()))))
            # exactly the detector's dims (as a set) -- no vector dim left
            if set(result.dims) != set(det.dims) | ({"illumination"} & set(result.dims)):
                out.append(("dims", "result dims %r detector dims %r" % (result.dims, det.dims)))
        if kind == "field":
            if "vector" not in result.dims or list(result.vector.values) != ["x", "y", "z"]:
                out.append(("vector_dim", repr(result.dims)))
        if result.name != det.name:
            out.append(("name", "got %r expected %r" % (result.name, det.name)))
        out += _optics_post(am, result, want_pol=(kind != "scat_matrix"))
        return out
    return post


def _post_xsec(args, kwargs, result):
    out = []
    v = np.asarray(result.values, dtype=float)
    if v.shape != (4,):
        return [("shape", repr(v.shape))]
    csca, cabs, cext, g = v
    if not np.all(np.isfinite(v)):
        return [("nonfinite", repr(v.tolist()))]
    if abs(cext - (csca + cabs)) > 1e-11 * abs(cext):
        out.append(("energy", "cext=%r csca+cabs=%r" % (cext, csca + cabs)))
    # Lorenz-Mie: absorption is the difference of two sums over the same coefficients (rounding only).  The multi-sphere
    # theory gets extinction from the optical theorem and scattering from a separate sum over the cluster expansion,
    # each to the iterative solver's tolerance: a negative difference below that tolerance is not negative absorption.
    th = _argmap(["scatterer", "medium_index", "illum_wavelen", "illum_polarization", "theory"], args, kwargs).get("theory")
    floor = 1e-4 if type(th).__name__ == "Multisphere" else 1e-10
    if cabs < -floor * abs(cext):
        out.append(("cabs_negative", repr(cabs)))
    if not csca > 0:
        out.append(("cscat_nonpositive", repr(csca)))
    if not (-1 - 1e-12 <= g <= 1 + 1e-12):
        out.append(("g_range", repr(g)))
    return out


def install(hp=None):
    """Wrap the scattering entry points on the imported (overlay) holopy."""
    global _installed
    if _installed:
        return
    import holopy
    import holopy.scattering.interface as I
    import holopy.inference  # noqa: make sure aliases exist before rebinding
    import holopy.inference.model  # noqa
    import holopy.propagation  # noqa
    specs = [
        ("calc_holo", I.calc_holo, _post_calc("holo")),
        ("calc_field", I.calc_field, _post_calc("field")),
        ("calc_intensity", I.calc_intensity, _post_calc("intensity")),
        ("calc_scat_matrix", I.calc_scat_matrix, _post_calc("scat_matrix")),
        ("calc_cross_sections", I.calc_cross_sections, _post_xsec),
    ]
    for fname, orig, post in specs:
        w = monitor(fname, post=post)(orig)
        ALIASES[fname] = rebind_all(orig, w)
    _installed = True


def wrap_in_modules(fname, orig, post=None, pure_args=True, watch_rng=None):
    """Install a monitor on an arbitrary function (used by property modules)."""
    w = monitor(fname, post=post, pure_args=pure_args, watch_rng=watch_rng)(orig)
    ALIASES[fname] = rebind_all(orig, w)
    return w
