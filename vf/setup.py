"""MANIFEST.setup_cmd: offline, from files on disk only.  Both steps are
accelerators; every check repeats them when missing."""
import sys
from . import build, harness

harness.ensure_deps()
for fl in ("opt", "chk", "asan"):
    try:
        for n in build.EXTS:
            build.build_ext(n, fl)
        print("built", fl)
    except Exception as e:  # a check will report the build failure itself
        print("setup: build of %s failed: %s" % (fl, str(e)[-500:]))
sys.exit(0)
