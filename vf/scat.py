"""Shared builders/generators for the scattering properties (C01-C10).

Everything a case needs is a small JSON spec; `build_*` turn specs into
HoloPy objects inside the child, `gen_*` produce specs in the parent.
"""
import math

import numpy as np

from .util import loguniform

# ------------------------------------------------------------------ build (child side)


def cnum(v):
    """JSON number or [re, im] -> python number"""
    if isinstance(v, (list, tuple)) and len(v) == 2 and not isinstance(v[0], (list, tuple)):
        return complex(v[0], v[1])
    if isinstance(v, dict) and "re" in v:
        return complex(v["re"], v["im"])
    return v


def build_scatterer(s):
    from holopy.scattering.scatterer import Sphere, Spheres, Spheroid, Cylinder, LayeredSphere, Scatterers
    t = s["t"]
    if t == "sphere":
        return Sphere(n=cnum(s["n"]), r=s["r"], center=tuple(s["c"]))
    if t == "layered":
        return Sphere(n=tuple(cnum(v) for v in s["n"]), r=tuple(s["r"]), center=tuple(s["c"]))
    if t == "layered_t":
        return LayeredSphere(n=tuple(cnum(v) for v in s["n"]), t=tuple(s["th"]), center=tuple(s["c"]))
    if t == "spheres":
        return Spheres([build_scatterer(m) for m in s["members"]], warn=False)
    if t == "scatterers":
        return Scatterers([build_scatterer(m) for m in s["members"]])
    if t == "spheroid":
        return Spheroid(n=cnum(s["n"]), r=tuple(s["r"]), rotation=tuple(s.get("rot", (0, 0, 0))), center=tuple(s["c"]))
    if t == "cylinder":
        return Cylinder(n=cnum(s["n"]), h=s["h"], d=s["d"], rotation=tuple(s.get("rot", (0, 0, 0))), center=tuple(s["c"]))
    raise ValueError("unknown scatterer spec %r" % (t,))


def build_theory(t):
    if t is None or t == "auto":
        return "auto"
    from holopy.scattering.theory import Mie, Multisphere, Tmatrix, MieLens, Lens
    from holopy.scattering.theory.mielens import AberratedMieLens
    nm = t["t"]
    kw = dict(t.get("kw", {}))
    if nm == "auto":
        return "auto"
    if nm == "Mie":
        return Mie(**kw)
    if nm == "Multisphere":
        return Multisphere(**kw)
    if nm == "Tmatrix":
        return Tmatrix()
    if nm == "MieLens":
        return MieLens(lens_angle=t["lens_angle"], calculator_accuracy_kwargs=kw)
    if nm == "AberratedMieLens":
        return AberratedMieLens(spherical_aberration=t["sa"], lens_angle=t["lens_angle"], calculator_accuracy_kwargs=kw)
    if nm == "Lens":
        import warnings
        with warnings.catch_warnings():
            warnings.simplefilter("ignore")
            return Lens(t["lens_angle"], build_theory(t["inner"]), quad_npts_theta=t.get("nth", 40), quad_npts_phi=t.get("nphi", 40))
    raise ValueError("unknown theory spec %r" % (nm,))


def build_detector(d, optics=None):
    """optics: dict to be stored on the detector (medium_index, illum_wavelen, illum_polarization) or None"""
    import holopy as hp
    from holopy.core.metadata import detector_grid, detector_points, update_metadata
    t = d["t"]
    if t == "grid":
        det = detector_grid(shape=tuple(d["shape"]), spacing=tuple(d["spacing"]) if isinstance(d["spacing"], (list, tuple)) else d["spacing"],
                            name=d.get("name"), extra_dims=d.get("extra_dims"))
        if d.get("z"):
            det = det.assign_coords(z=[float(d["z"])])
        org = d.get("origin")
        if org:
            det = det.assign_coords(x=det.x.values + org[0], y=det.y.values + org[1])
        if d.get("crop"):
            (a, b), (c, e) = d["crop"]
            det = det.isel(x=slice(a, b), y=slice(c, e))
        if d.get("sel"):      # pixel rows / columns picked by index list: flipped (descending) or unsorted axes
            det = det.isel(x=list(d["sel"]["x"]), y=list(d["sel"]["y"]))
        if d.get("zs"):       # several detector planes: a z stack
            import xarray as xr
            det = xr.concat([det.assign_coords(z=[float(z)]) for z in d["zs"]], dim="z")
        if d.get("order"):    # the same grid stored with its axes in another order
            det = det.transpose(*d["order"])
    elif t == "points":
        det = detector_points(x=np.asarray(d["x"], dtype=float), y=np.asarray(d["y"], dtype=float),
                              z=(np.asarray(d["z"], dtype=float) if isinstance(d.get("z"), list) else d.get("z")), name=d.get("name"))
    elif t == "sph":
        det = detector_points(theta=np.asarray(d["theta"], dtype=float), phi=np.asarray(d["phi"], dtype=float),
                              r=(np.asarray(d["r"], dtype=float) if isinstance(d.get("r"), list) else d.get("r")), name=d.get("name"))
    else:
        raise ValueError(t)
    if optics:
        det = update_metadata(det, **optics)
    return det


def grid_positions(d):
    """(x, y) coordinate arrays of a grid spec, exactly as detector_grid computes them"""
    nx, ny = d["shape"]
    sp = d["spacing"] if isinstance(d["spacing"], (list, tuple)) else (d["spacing"], d["spacing"])
    x = np.arange(nx) * sp[0]
    y = np.arange(ny) * sp[1]
    org = d.get("origin")
    if org:
        x = x + org[0]
        y = y + org[1]
    if d.get("crop"):
        (a, b), (c, e) = d["crop"]
        x, y = x[a:b], y[c:e]
    if d.get("sel"):
        x, y = x[list(d["sel"]["x"])], y[list(d["sel"]["y"])]
    return x, y


def calc(fn, det, scat, optics, theory, **kw):
    """call holopy.scattering.<fn> by keyword, optics = dict(medium_index, illum_wavelen, illum_polarization)"""
    import holopy.scattering as S
    f = getattr(S, fn)
    args = dict(medium_index=optics.get("medium_index"), illum_wavelen=optics.get("illum_wavelen"))
    if fn != "calc_scat_matrix":
        args["illum_polarization"] = optics.get("illum_polarization")
    args.update(kw)
    if fn == "calc_cross_sections":
        return f(scat, theory=theory, **args)
    return f(det, scat, theory=theory, **args)


# ------------------------------------------------------------------ generate (parent side)

def gen_optics(rng, pol="any"):
    nm = float(rng.uniform(1.0, 1.6))
    wl = float(rng.uniform(0.4, 0.8))
    if pol == "x":
        p = [1, 0]
    elif pol == "axis":
        p = [[1, 0], [0, 1]][int(rng.integers(0, 2))]
    else:
        a = float(rng.uniform(0, 2 * math.pi))
        nrm = float(loguniform(rng, 0.2, 5))
        p = [nrm * math.cos(a), nrm * math.sin(a)]
    return {"medium_index": nm, "illum_wavelen": wl, "illum_polarization": p}


def kmed(optics):
    return 2 * math.pi * optics["medium_index"] / optics["illum_wavelen"]


def gen_index(rng, optics, absorbing=None, lo=1.05, hi=2.0):
    m = float(rng.uniform(lo, hi))
    if rng.random() < 0.15:
        m = float(rng.uniform(0.75, 0.95))
    n = m * optics["medium_index"]
    if absorbing is None:
        absorbing = rng.random() < 0.3
    if absorbing:
        return [n, float(loguniform(rng, 1e-4, 0.5))]
    return n


def gen_sphere(rng, optics, xmax=25.0, xmin=0.1, center=None, zrange=(5.0, 30.0), absorbing=None, extent=2.0):
    k = kmed(optics)
    x = float(loguniform(rng, xmin, xmax))
    c = center or [float(rng.uniform(0, extent)), float(rng.uniform(0, extent)), float(rng.uniform(*zrange))]
    if center is None and rng.random() < 0.12:
        # whole-number positions written as Python ints (what a user types: center=(1, 0, 12)), incl. exact zeros
        c = [int(round(c[0])), int(round(c[1])), int(max(1, round(c[2]))) if c[2] > 0 else int(min(-1, round(c[2])))]
    return {"t": "sphere", "n": gen_index(rng, optics, absorbing), "r": x / k, "c": c}


def gen_layered(rng, optics, nlayers=None, xmax=15.0, center=None, zrange=(5.0, 30.0), extent=2.0):
    k = kmed(optics)
    nl = nlayers or int(rng.integers(2, 5))
    xs = np.sort(loguniform(rng, 0.3, xmax, nl))
    # keep layers distinct
    xs = xs * (1 + 0.05 * np.arange(nl))
    c = center or [float(rng.uniform(0, extent)), float(rng.uniform(0, extent)), float(rng.uniform(*zrange))]
    return {"t": "layered", "n": [gen_index(rng, optics, absorbing=(rng.random() < 0.2)) for _ in range(nl)],
            "r": [float(v / k) for v in xs], "c": c}


_AXES = [(1.0, 0.0, 0.0), (-1.0, 0.0, 0.0), (0.0, 1.0, 0.0), (0.0, -1.0, 0.0), (0.0, 0.0, 1.0), (0.0, 0.0, -1.0)]


def gen_cluster(rng, optics, nsph, xmax=6.0, xmin=0.5, zc=None, gap=(0.05, 1.5), absorbing=False, extent=2.0, axis_prob=0.25):
    """non-overlapping spheres placed by rejection around a centre; every fourth cluster is built along the coordinate axes (a dimer
    along x, an L, a chain along z: neighbours then share coordinates EXACTLY, as hand-written configurations do)"""
    on_axes = rng.random() < axis_prob
    k = kmed(optics)
    members = []
    c0 = np.array([rng.uniform(0.3, extent), rng.uniform(0.3, extent), zc if zc is not None else rng.uniform(8, 25)])
    tries = 0
    while len(members) < nsph and tries < 2000:
        tries += 1
        r = float(loguniform(rng, xmin, xmax)) / k
        if not members:
            c = c0.copy()
        else:
            base = members[int(rng.integers(0, len(members)))]
            u = rng.normal(size=3)
            u /= np.linalg.norm(u)
            if on_axes:
                u = np.array(_AXES[int(rng.integers(0, 4 if zc is not None else 6))])
            c = np.array(base["c"]) + u * (base["r"] + r) * (1 + float(rng.uniform(*gap)))
        if all(np.linalg.norm(c - np.array(m["c"])) > (m["r"] + r) * 1.02 for m in members):
            members.append({"t": "sphere", "n": gen_index(rng, optics, absorbing=absorbing and rng.random() < 0.3), "r": r, "c": [float(v) for v in c]})
    return {"t": "spheres", "members": members}


def gen_spheroid(rng, optics, xmax=6.0, aspect=(0.5, 2.0), rot=True, center=None):
    k = kmed(optics)
    x = float(loguniform(rng, 0.5, xmax))
    asp = float(rng.uniform(*aspect))
    rxy = x / k
    c = center or [float(rng.uniform(0, 2)), float(rng.uniform(0, 2)), float(rng.uniform(8, 25))]
    return {"t": "spheroid", "n": gen_index(rng, optics, absorbing=(rng.random() < 0.2), hi=1.6), "r": [rxy, rxy * asp],
            "rot": [0.0, float(rng.uniform(0, math.pi)), float(rng.uniform(0, 2 * math.pi))] if rot else [0.0, 0.0, 0.0], "c": c}


def gen_cylinder(rng, optics, xmax=5.0, aspect=(0.6, 1.8), rot=True, center=None):
    k = kmed(optics)
    x = float(loguniform(rng, 0.5, xmax))
    d = 2 * x / k
    h = d * float(rng.uniform(*aspect))
    if rng.random() < 0.15:
        h = d          # the square cylinder (diameter = height): eps = 1 in the T-matrix code without being a sphere
    c = center or [float(rng.uniform(0, 2)), float(rng.uniform(0, 2)), float(rng.uniform(8, 25))]
    return {"t": "cylinder", "n": gen_index(rng, optics, absorbing=(rng.random() < 0.2), hi=1.6), "h": h, "d": d,
            "rot": [0.0, float(rng.uniform(0, math.pi)), float(rng.uniform(0, 2 * math.pi))] if rot else [0.0, 0.0, 0.0], "c": c}


def gen_grid(rng, maxn=10, allow_1=True, extent=2.0):
    nx, ny = int(rng.integers(1 if allow_1 else 2, maxn + 1)), int(rng.integers(1 if allow_1 else 2, maxn + 1))
    if nx == 1 and ny == 1:
        ny = 3
    sx = extent / max(nx, 2) * float(rng.uniform(0.5, 1.5))
    sy = sx if rng.random() < 0.4 else extent / max(ny, 2) * float(rng.uniform(0.5, 1.5))
    d = {"t": "grid", "shape": [nx, ny], "spacing": [sx, sy]}
    if rng.random() < 0.3:
        d["origin"] = [float(rng.uniform(-1, 1)), float(rng.uniform(-1, 1))]
    if rng.random() < 0.15:
        d["z"] = float(rng.uniform(-1.5, 1.5))     # detector plane away from z = 0
    return d


def gen_points(rng, n=None, extent=2.0, z=0.0, vary_z=False):
    n = n or int(rng.integers(1, 25))
    d = {"t": "points", "x": [float(v) for v in rng.uniform(-0.5, extent + 0.5, n)], "y": [float(v) for v in rng.uniform(-0.5, extent + 0.5, n)]}
    if vary_z:
        d["z"] = [float(v) for v in rng.uniform(-1, 1, n)]
    else:
        d["z"] = z
    return d


MIE_OPTS = [{}, {"compute_escat_radial": False}, {"full_radial_dependence": False}, {"compute_escat_radial": False, "full_radial_dependence": False}]
MS_OPTS = [{}, {"meth": 0}, {"compute_escat_radial": True}, {"qeps1": 1e-8, "qeps2": 1e-10, "eps": 1e-9}]
ML_OPTS = [{}, {"interpolate_integrals": True}, {"interpolate_integrals": False}, {"quad_npts": 60}]


def gen_config(rng, kind):
    """A full (optics, scatterer, theory, detector) configuration of one kind."""
    if kind == "mie_sphere":
        o = gen_optics(rng)
        return {"optics": o, "scat": gen_sphere(rng, o), "theory": {"t": "Mie", "kw": MIE_OPTS[int(rng.integers(0, 4))]},
                "det": gen_grid(rng) if rng.random() < 0.6 else gen_points(rng, vary_z=rng.random() < 0.5)}
    if kind == "mie_layered":
        o = gen_optics(rng)
        return {"optics": o, "scat": gen_layered(rng, o), "theory": {"t": "Mie", "kw": MIE_OPTS[int(rng.integers(0, 4))]},
                "det": gen_grid(rng) if rng.random() < 0.6 else gen_points(rng)}
    if kind == "mie_spheres":
        o = gen_optics(rng)
        return {"optics": o, "scat": gen_cluster(rng, o, int(rng.integers(2, 5)), absorbing=True), "theory": {"t": "Mie", "kw": MIE_OPTS[int(rng.integers(0, 4))]},
                "det": gen_grid(rng) if rng.random() < 0.6 else gen_points(rng)}
    if kind == "multisphere":
        o = gen_optics(rng)
        return {"optics": o, "scat": gen_cluster(rng, o, int(rng.integers(1, 5)), xmax=5.0), "theory": {"t": "Multisphere", "kw": MS_OPTS[int(rng.integers(0, 4))]},
                "det": gen_grid(rng, maxn=8) if rng.random() < 0.6 else gen_points(rng)}
    if kind in ("tmatrix_spheroid", "tmatrix_cylinder", "tmatrix_sphere"):
        o = gen_optics(rng, pol="x")
        sc = {"tmatrix_spheroid": gen_spheroid, "tmatrix_cylinder": gen_cylinder}.get(kind)
        s = sc(rng, o) if sc else gen_sphere(rng, o, xmax=8.0)
        return {"optics": o, "scat": s, "theory": {"t": "Tmatrix"}, "det": gen_grid(rng, maxn=6) if rng.random() < 0.6 else gen_points(rng, n=int(rng.integers(1, 12)))}
    if kind in ("mielens", "aberrated", "lens_mie", "mielens_spheres"):
        o = gen_optics(rng)
        zs = float(rng.uniform(-3, 12))
        if kind == "mielens_spheres":
            s = gen_cluster(rng, o, int(rng.integers(2, 4)), zc=zs)
        else:
            s = gen_sphere(rng, o, xmax=12.0, zrange=(zs, zs + 1e-9), absorbing=False)
            if isinstance(s["n"], list):
                s["n"] = s["n"][0]
        la = float(rng.uniform(0.2, 1.2))
        if kind in ("mielens", "mielens_spheres"):
            th = {"t": "MieLens", "lens_angle": la, "kw": ML_OPTS[int(rng.integers(0, 4))]}
        elif kind == "aberrated":
            th = {"t": "AberratedMieLens", "lens_angle": la, "sa": [float(rng.normal()), 0.1 * float(rng.normal())] if rng.random() < 0.5 else float(rng.normal()), "kw": {}}
        else:
            th = {"t": "Lens", "lens_angle": la, "inner": {"t": "Mie", "kw": {}}, "nth": 30, "nphi": 30}
        return {"optics": o, "scat": s, "theory": th, "det": gen_grid(rng, maxn=7) if rng.random() < 0.6 else gen_points(rng, n=int(rng.integers(1, 16)))}
    raise ValueError(kind)


ALL_KINDS = ["mie_sphere", "mie_layered", "mie_spheres", "multisphere", "tmatrix_spheroid", "tmatrix_cylinder", "tmatrix_sphere",
             "mielens", "aberrated", "lens_mie", "mielens_spheres"]


# ------------------------------------------------------------------ metamorphic transforms of a config (parent or child)

def _scale_scat(s, L):
    s = dict(s)
    t = s["t"]
    if "c" in s:
        s["c"] = [v * L for v in s["c"]]
    if t == "sphere":
        s["r"] = s["r"] * L
    elif t in ("layered",):
        s["r"] = [v * L for v in s["r"]]
    elif t == "layered_t":
        s["th"] = [v * L for v in s["th"]]
    elif t in ("spheres", "scatterers"):
        s["members"] = [_scale_scat(m, L) for m in s["members"]]
    elif t == "spheroid":
        s["r"] = [v * L for v in s["r"]]
    elif t == "cylinder":
        s["h"] = s["h"] * L
        s["d"] = s["d"] * L
    return s


def scale_config(cfg, L):
    """multiply every length of a configuration by L"""
    out = dict(cfg)
    o = dict(cfg["optics"])
    o["illum_wavelen"] = o["illum_wavelen"] * L
    out["optics"] = o
    out["scat"] = _scale_scat(cfg["scat"], L)
    d = dict(cfg["det"])
    if d["t"] == "grid":
        sp = d["spacing"]
        d["spacing"] = [v * L for v in sp] if isinstance(sp, (list, tuple)) else sp * L
        if d.get("origin"):
            d["origin"] = [v * L for v in d["origin"]]
        if d.get("z"):
            d["z"] = d["z"] * L
    elif d["t"] == "points":
        d["x"] = [v * L for v in d["x"]]
        d["y"] = [v * L for v in d["y"]]
        d["z"] = [v * L for v in d["z"]] if isinstance(d.get("z"), list) else (d.get("z") or 0.0) * L
    elif d["t"] == "sph":
        if isinstance(d.get("r"), list):
            d["r"] = [v * L for v in d["r"]]
        elif d.get("r") is not None:
            d["r"] = d["r"] * L
    out["det"] = d
    return out


class _Apply:
    """stands in for the factor of scale_config: `length * _Apply(f)` is f(length)"""
    def __init__(self, f):
        self.f = f

    def __rmul__(self, v):
        return self.f(v)


def map_lengths(cfg, f):
    """apply f to every length of a configuration (wavelength, radii, centres, detector coordinates)"""
    return scale_config(cfg, _Apply(f))


def _map_index(s, f):
    s = dict(s)
    if "n" in s:
        n = s["n"]
        if s["t"] in ("layered", "layered_t"):
            s["n"] = [f(v) for v in n]
        else:
            s["n"] = f(n)
    if "members" in s:
        s["members"] = [_map_index(m, f) for m in s["members"]]
    return s


def reindex_config(cfg):
    """(n, n_m, lambda) -> (n/n_m, 1, lambda/n_m)"""
    nm = cfg["optics"]["medium_index"]

    def f(v):
        if isinstance(v, (list, tuple)):
            return [v[0] / nm, v[1] / nm]
        return v / nm
    out = dict(cfg)
    o = dict(cfg["optics"])
    o["medium_index"] = 1.0
    o["illum_wavelen"] = o["illum_wavelen"] / nm
    out["optics"] = o
    out["scat"] = _map_index(cfg["scat"], f)
    return out


def _map_members(s, f):
    s = dict(s)
    if "members" in s:
        s["members"] = [_map_members(m, f) for m in s["members"]]
        return s
    return f(s)


def shift_config(cfg, dx, dy):
    """shift scatterer and detector by the same in-plane vector"""
    out = dict(cfg)

    def f(s):
        s = dict(s)
        s["c"] = [s["c"][0] + dx, s["c"][1] + dy, s["c"][2]]
        return s
    out["scat"] = _map_members(cfg["scat"], f)
    d = dict(cfg["det"])
    if d["t"] == "grid":
        org = d.get("origin") or [0.0, 0.0]
        d["origin"] = [org[0] + dx, org[1] + dy]
    else:
        d["x"] = [v + dx for v in d["x"]]
        d["y"] = [v + dy for v in d["y"]]
    out["det"] = d
    return out


def grid_to_points(d):
    """point detector holding exactly the pixel positions of a grid spec (x-major order, as the grid flattens)"""
    x, y = grid_positions(d)
    X, Y = np.meshgrid(x, y, indexing="ij")
    return {"t": "points", "x": [float(v) for v in X.ravel()], "y": [float(v) for v in Y.ravel()], "z": float(d.get("z") or 0.0)}


def rotate_config(cfg, alpha, rotate_pol=True):
    """rotate scatterer configuration, polarization and detector points by alpha about the optical axis (through the origin).
    The detector must be a point detector."""
    c, s_ = math.cos(alpha), math.sin(alpha)
    out = dict(cfg)

    def f(s):
        s = dict(s)
        x, y, z = s["c"]
        s["c"] = [c * x - s_ * y, s_ * x + c * y, z]
        if "rot" in s:
            a, b, g = s["rot"]
            s["rot"] = [a, b, (g + alpha) % (2 * math.pi)]
        return s
    out["scat"] = _map_members(cfg["scat"], f)
    o = dict(cfg["optics"])
    if rotate_pol:
        px, py = o["illum_polarization"]
        o["illum_polarization"] = [c * px - s_ * py, s_ * px + c * py]
    out["optics"] = o
    d = dict(cfg["det"])
    assert d["t"] == "points"
    xs, ys = np.asarray(d["x"]), np.asarray(d["y"])
    d["x"] = [float(v) for v in c * xs - s_ * ys]
    d["y"] = [float(v) for v in s_ * xs + c * ys]
    out["det"] = d
    return out


def mirror_config(cfg):
    """mirror in the x-z plane (y -> -y): positions, polarization, orientation"""
    out = dict(cfg)

    def f(s):
        s = dict(s)
        x, y, z = s["c"]
        s["c"] = [x, -y, z]
        if "rot" in s:
            a, b, g = s["rot"]
            s["rot"] = [(-a) % (2 * math.pi), b, (-g) % (2 * math.pi)]
        return s
    out["scat"] = _map_members(cfg["scat"], f)
    o = dict(cfg["optics"])
    px, py = o["illum_polarization"]
    o["illum_polarization"] = [px, -py]
    out["optics"] = o
    d = dict(cfg["det"])
    assert d["t"] == "points"
    d["y"] = [-v for v in d["y"]]
    out["det"] = d
    return out


def guarded(fn):
    """Documented solver failures (non-convergence) are not results: the case is recorded as skipped,
    never as held; the harness turns too many skips into an inconclusive verdict."""
    import functools

    @functools.wraps(fn)
    def wrapper(case):
        from holopy.scattering.errors import MultisphereFailure, TmatrixFailure
        try:
            return fn(case)
        except (MultisphereFailure, TmatrixFailure) as e:
            return {"resid": {}, "flags": {}, "skipped": "solver_failure:" + type(e).__name__, "fmax": 0.0, "hptp": 0.0}
    return wrapper
