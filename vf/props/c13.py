"""C13 Fitting: fixed point, monotone improvement, recovery, consistent results."""
import math
import os
import shutil
import tempfile

import numpy as np

from ..util import rng_for, fnum, loguniform, relmax

LEVEL_TEXT = ("Runtime monitoring of hp.fit on generated noise-free single-sphere problems in a physical box (index 1.4-1.7, "
              "radius 0.3-1, depth 5-25, scaling 0.6-1, 40-64 pixel detectors), for Mie and MieLens (with fitted lens "
              "angle), both least-squares strategies, full images and seeded pixel subsets, started at the truth and from "
              "perturbations up to 2 percent: the oracle checks the fixed point, that the misfit never exceeds the guess's, "
              "bounds, recovery, that names/hologram/log-probability of the result equal the model evaluated separately at "
              "the reported parameters, that a second fit with the same objects is identical, that model, data and strategy "
              "are unchanged (deep digests), and that the result survives hp.save/hp.load.")
LEVEL_NOTE = "Empirical claims about an optimiser: 'held' means held for the generated problems in the stated box; the box is part of the evidence."
TECHNIQUE = "runtime monitoring: generated inverse problems through the real fit/save/load path; recomputation oracle, repeat-history comparison and purity digests"
RULE = ("problems drawn uniformly from the box; theory Mie (2/3) or MieLens with free lens angle (1/3); strategy NmpfitStrategy "
        "/ LeastSquaresScipyStrategy; data full image or 60 percent pixel subset (seeded); start = truth or truth*(1+u), "
        "|u|<=0.02 per parameter; the same strategy object then fits a second particle; forms: verbose output, direct minimize() twice, one free parameter (recorded), seeds 0 / np.int64(0) for the pixel subsets, extensionless result names. non-trivial = fit returned a result; distinct by rounded case JSON")
ASSUMPTIONS = ["recovery is claimed for position, radius and scaling free (index fixed), as the property states",
               "the scipy strategy draws its pixel subset from numpy's global stream, so repeatability is checked after re-seeding that stream"]
MIN_NONTRIVIAL = 6
CASE_TIMEOUT = 900


def cases(tier, seed):
    out = []
    rng = rng_for(seed, "c13")
    n = 16 if tier == "quick" else 400
    for i in range(n):
        lens = i % 3 == 2
        c = {"id": "fit-%d" % i, "kind": "fit", "n": float(rng.uniform(1.4, 1.7)), "r": float(rng.uniform(0.3, 1.0)),
             "z": float(rng.uniform(5, 25)) if not lens else float(rng.uniform(3, 15)), "alpha": float(rng.uniform(0.6, 1.0)),
             "npix": int(rng.integers(40, 65)) if tier != "quick" else int(rng.integers(40, 49)), "spacing": float(rng.uniform(0.08, 0.12)),
             "fx": float(rng.uniform(0.35, 0.65)), "fy": float(rng.uniform(0.35, 0.65)),
             "theory": "MieLens" if lens else "Mie", "lens_angle": float(rng.uniform(0.6, 1.0)), "fit_lens_angle": bool(lens and (i // 3) % 2 == 0),
             "strategy": ["nmpfit", "scipy"][i % 2], "subset": bool((i // 2) % 2), "start": ["truth", "perturbed"][(i // 4) % 2] if i >= 4 else ["truth", "perturbed"][i % 2],
             "perturb": [float(v) for v in rng.uniform(-0.02, 0.02, 6)], "seed": [seed, "fit", i], "cost": 10,
             # every fourth problem has bounds hugging the truth (+-3 %), so that the bounds handed to the minimiser matter
             "tight_bounds": bool(i % 8 in (1, 4)), "wl_from_data": bool(i % 3 == 1),
             # the generating scaling sits exactly on the upper bound of its prior (HoloPy's default alpha prior is Uniform(0.5, 1) and
             # a plain calc_holo has alpha = 1); the caller hands over data that is already a pixel subset (every fifth problem)
             "alpha_on_bound": bool((i // 2) % 4 == 1), "preflat": bool(i % 5 == 3),
             # region-of-interest style detectors: anisotropic pixels and different x / y offsets (every second problem)
             "spacing_y_factor": float(rng.uniform(0.8, 1.25)) if i % 2 else 1.0,
             "offset": [float(rng.uniform(0.5, 3)), float(rng.uniform(4, 8))] if (i // 2) % 2 == 0 else [0.0, 0.0],
             # the detector plane need not be the plane z = 0 (every third problem; the particle is then further up by as much)
             "det_z": [0.0, 0.0, float(rng.uniform(0.5, 3.0))][i % 3],
             # data that the caller flattened (all pixels, no selection) and a strategy that then selects pixels itself
             "flat_then_npixels": bool(i % 7 == 5)}
        out.append(c)
    # the generating height lies exactly on the UPPER edge of its prior, everything else well inside (F114)
    out.append(dict(out[0], id="fit-zupper-nmpfit", strategy="nmpfit", start="perturbed", subset=False, tight_bounds=False, alpha_on_bound=False, z_on_upper_bound=True,
                    preflat=False, wl_from_data=False, theory="Mie", fit_lens_angle=False, det_z=0.0, flat_then_npixels=False, seed=[seed, "zupper", 0]))
    out.append(dict(out[-1], id="fit-zupper-guess-nmpfit", z_guess_on_bound=True, seed=[seed, "zupper", 1]))
    out.append({"id": "fit-shortcut", "kind": "shortcut", "strategy": "nmpfit", "subset": False, "cost": 10})
    # ways of using a strategy object: verbose output switched on, its public minimiser called directly twice, one free parameter
    for j, strat in enumerate(["nmpfit", "scipy"]):
        out.append({"id": "fit-forms-%s" % strat, "kind": "forms", "strategy": strat, "subset": False, "cost": 10, "seed": [seed, "forms", j]})
    for which in ("lower_edge_all_steps_negative", "rejected_trial_step"):
        out.append({"id": "fit-recorded-%s" % which, "kind": "recorded", "which": which, "strategy": "nmpfit", "subset": False, "cost": 10})
    for edge in ("upper", "lower"):
        out.append({"id": "fit-pegged-%s" % edge, "kind": "pegged", "edge": edge, "strategy": "nmpfit", "subset": False, "cost": 10})
    # the starting value of one parameter sits exactly on an edge of its prior ("no attenuation": alpha = 1 under Uniform(0.5, 1)) while
    # the generating value lies a few percent inside: the minimiser must be able to leave the edge
    for edge in ("upper", "lower"):
        for strat in ("nmpfit", "scipy"):
            out.append({"id": "fit-startedge-%s-%s" % (edge, strat), "kind": "startedge", "edge": edge, "strategy": strat, "subset": False, "cost": 10})
    for j, strat in enumerate(["nmpfit", "scipy"]):
        c = dict(out[j], id="fit-edges-%s" % strat, strategy=strat, start="perturbed", subset=False, tight_bounds=False, alpha_on_bound=False, all_on_bounds=True,
                 preflat=False, wl_from_data=False, theory="Mie", fit_lens_angle=False, seed=[seed, "edges", j])
        out.append(c)
    return out


# ------------------------------------------------------------------ child

def _run_pegged(case):
    """A recorded problem in which the minimiser runs into the upper limit of the height on its way: the generating height IS that limit
    (prior Uniform(3, z_true)), every other parameter starts two percent off. The limits handed to the minimiser must map back into the
    prior's support, or the point on the limit has zero prior probability and the fit stalls (F114)."""
    import holopy as hp
    from holopy.core.metadata import detector_grid, update_metadata
    from holopy.core.prior import Uniform
    from holopy.inference import AlphaModel, NmpfitStrategy
    from holopy.scattering import Sphere, calc_holo
    det = update_metadata(detector_grid(shape=(24, 20), spacing=0.1), medium_index=1.33, illum_wavelen=0.66, illum_polarization=(1, 0), noise_sd=1.)
    truth = {"x": 1.5280779463698335, "y": 1.1993477276883455, "z": 7.042126161666966, "r": 0.4428627393637992, "alpha": 0.9247776766229697}
    f = 0.9815367577465285
    data = calc_holo(det, Sphere(n=1.59, r=truth["r"], center=(truth["x"], truth["y"], truth["z"])), scaling=truth["alpha"])
    zp = {"upper": Uniform(3, truth["z"], guess=truth["z"] * f), "lower": Uniform(truth["z"], 10, guess=truth["z"] / f)}[case["edge"]]
    sphere = Sphere(n=1.59, r=Uniform(0.3, 0.8, guess=truth["r"] * f), center=(Uniform(0, 3, guess=truth["x"] * f), Uniform(0, 3, guess=truth["y"] / f), zp))
    model = AlphaModel(sphere, noise_sd=1., alpha=Uniform(0.5, 1, guess=truth["alpha"] / f))
    res = hp.fit(data, model, strategy=NmpfitStrategy())
    got = dict(zip(["r", "x", "y", "z", "alpha"], [res.parameters[k] for k in ("r", "center.0", "center.1", "center.2", "alpha")]))
    err = max(abs(got[k] - truth[k]) / abs(truth[k]) for k in truth)
    return {"resid": {"recovery": fnum(err)}, "flags": {"within_bounds": bool(zp.lower_bound <= got["z"] <= zp.upper_bound)}, "got": got, "truth": truth, "err": err}


def _run_startedge(case):
    import holopy as hp
    from holopy.core.prior import Uniform
    from holopy.inference import AlphaModel, NmpfitStrategy, LeastSquaresScipyStrategy
    from holopy.scattering import Sphere, calc_holo
    optics = dict(medium_index=1.33, illum_wavelen=0.66, illum_polarization=(1, 0))
    bounds = {"r": (0.3, 1.0), "x": (0, 4), "y": (0, 4), "z": (4, 12), "alpha": (0.5, 1.0)}
    truth = {"x": 1.7, "y": 1.9, "z": 8.0, "r": 0.6, "alpha": 0.97 if case["edge"] == "upper" else 0.53}
    guess = {"x": 1.751, "y": 1.957, "z": 8.24, "r": 0.618, "alpha": 1.0 if case["edge"] == "upper" else 0.5}
    det = hp.detector_grid(shape=24, spacing=0.15)
    data = calc_holo(det, Sphere(n=1.58, r=truth["r"], center=(truth["x"], truth["y"], truth["z"])), scaling=truth["alpha"], **optics)
    pri = {k: Uniform(*bounds[k], guess=guess[k]) for k in bounds}
    model = AlphaModel(Sphere(n=1.58, r=pri["r"], center=[pri["x"], pri["y"], pri["z"]]), alpha=pri["alpha"], noise_sd=0.01, **optics)
    strat = NmpfitStrategy() if case["strategy"] == "nmpfit" else LeastSquaresScipyStrategy()
    res = hp.fit(data, model, strategy=strat)
    got = dict(zip(["r", "x", "y", "z", "alpha"], [res.parameters[k] for k in ("r", "center.0", "center.1", "center.2", "alpha")]))
    err = max(abs(got[k] - truth[k]) / abs(truth[k]) for k in truth)
    c_res = float(((model.forward(res.parameters, data).values - data.values) ** 2).sum())
    c_guess = float(((model.forward(model.initial_guess, data).values - data.values) ** 2).sum())
    return {"resid": {"recovery": fnum(err), "misfit_ratio_minus_1": fnum(max(0.0, (c_res - c_guess) / max(c_guess, 1e-300)))},
            "flags": {"within_bounds": bool(all(bounds[k][0] <= got[k] <= bounds[k][1] for k in bounds))}, "got": got, "truth": truth, "err": err}


RECORDED = {
    # starting value of alpha ON the lower edge of its prior, truth 0.1 % inside: every component of the first step is negative (F138)
    "lower_edge_all_steps_negative": dict(true=dict(x=2.95, y=1.94, z=5.93, r=0.88, alpha=0.666),
                                          guess=dict(x=2.95 * 1.01, y=1.94 * 1.02, z=5.93, r=0.88 * 1.02, alpha=0.666 * 0.999),
                                          bounds=dict(x=(2, 4), y=(1, 3), z=(4, 8), r=(0.5, 1.2), alpha=(0.666 * 0.999, 1.0))),
    # a sphere outside the field of view, every start inside its prior and at most 3 % off: a trial step is rejected on the way (F139)
    "rejected_trial_step": dict(true={"x": -2.9159382980128528, "y": -2.1654662104855467, "z": 5.029865039170116, "r": 0.5232677344304448, "alpha": 0.8471196642544022},
                                guess={"x": -2.8392270848988854, "y": -2.1387911529914905, "z": 5.1771735154027, "r": 0.5380622577598927, "alpha": 0.8461969673868031},
                                bounds={"x": (-3.5, -2.0), "y": (-2.6, -1.5), "z": (4.02, 6.18), "r": (0.42, 0.64), "alpha": (0.6767730345359226, 1.0165)}),
}


def _run_recorded(case):
    """recorded single-sphere problems (position, radius, scaling free; noise-free data of the model's own forward calculation)"""
    import holopy as hp
    from holopy.core.prior import Uniform
    from holopy.inference import AlphaModel, NmpfitStrategy, LeastSquaresScipyStrategy
    from holopy.scattering import Sphere
    rec = RECORDED[case["which"]]
    optics = dict(medium_index=1.33, illum_wavelen=0.66, illum_polarization=(1, 0))
    det = hp.detector_grid(shape=20, spacing=0.2)

    def mk(g):
        u = {k: Uniform(*rec["bounds"][k], guess=g[k]) for k in g}
        return AlphaModel(Sphere(n=1.58, r=u["r"], center=[u["x"], u["y"], u["z"]]), alpha=u["alpha"], noise_sd=0.01, **optics)
    gen = mk(rec["true"])
    data = gen.forward(gen.initial_guess, det)
    strat = NmpfitStrategy() if case["strategy"] == "nmpfit" else LeastSquaresScipyStrategy()
    res = hp.fit(data, mk(rec["guess"]), strategy=strat)
    got = dict(zip(["r", "x", "y", "z", "alpha"], [res.parameters[k] for k in ("r", "center.0", "center.1", "center.2", "alpha")]))
    err = max(abs(got[k] / rec["true"][k] - 1) for k in got)
    return {"resid": {"recovery": fnum(err)}, "flags": {"within_bounds": bool(all(rec["bounds"][k][0] <= got[k] <= rec["bounds"][k][1] for k in got))},
            "got": got, "truth": rec["true"], "err": err}


def _run_shortcut(case):
    """hp.fit(data, scatterer, parameters=[names]) -- the short form that builds the model itself -- takes the scatterer's centre in any
    sequence type and gives the same fit (F117)"""
    import holopy as hp
    from holopy.core.metadata import detector_grid, update_metadata
    from holopy.scattering import Sphere, calc_holo
    det = update_metadata(detector_grid(shape=(20, 22), spacing=0.1), medium_index=1.33, illum_wavelen=0.66, illum_polarization=(1, 0), noise_sd=0.05)
    data = calc_holo(det, Sphere(n=1.59, r=0.5, center=(1.0, 1.1, 8.0)), scaling=1.0)
    got = {}
    for form, conv in (("list", list), ("tuple", tuple), ("array", np.array)):
        res = hp.fit(data, Sphere(n=1.59, r=0.51, center=conv([1.02, 1.08, 8.1])), parameters=["x", "y", "z", "r"])
        got[form] = [float(v) for v in res.parameters.values()]
    flags = {"centre_form_irrelevant": bool(got["list"] == got["tuple"] == got["array"])}
    err = max(abs(a - b) / b for a, b in zip(sorted(got["list"]), sorted([1.0, 1.1, 8.0, 0.5, 1.0][:len(got["list"])])))
    return {"resid": {}, "flags": flags, "got": got, "truth": None, "err": err}


def _run_forms(case):
    import contextlib
    import io as _io
    import holopy as hp
    from holopy.core.prior import Uniform
    from holopy.core.metadata import detector_grid, update_metadata
    from holopy.inference import AlphaModel, NmpfitStrategy, LeastSquaresScipyStrategy
    from holopy.scattering import Sphere, calc_holo
    from vf.monitors import digest
    rng = rng_for(*case["seed"])
    nm = case["strategy"] == "nmpfit"
    det = update_metadata(detector_grid(shape=(22, 20), spacing=0.1), medium_index=1.33, illum_wavelen=0.66, illum_polarization=(1, 0), noise_sd=0.05)
    truth = {"r": float(rng.uniform(0.4, 0.7)), "z": float(rng.uniform(6, 12)), "x": 1.05, "y": 0.95}
    data = calc_holo(det, Sphere(n=1.59, r=truth["r"], center=(truth["x"], truth["y"], truth["z"])), scaling=1.0)
    flags, resid = {}, {}
    mk = (lambda **k: NmpfitStrategy(**k)) if nm else (lambda **k: LeastSquaresScipyStrategy(**{a: b for a, b in k.items() if a != "quiet"}))
    # (a) priors without names (the usual way to write a model), verbose output on: the same fit as with the output off
    def model4():
        return AlphaModel(Sphere(n=1.59, r=Uniform(0.3, 0.9, guess=truth["r"] * 1.02), center=[Uniform(0, 2, guess=1.03), Uniform(0, 2, guess=0.97), Uniform(4, 14, guess=truth["z"] * 0.99)]),
                          alpha=1.0, noise_sd=0.05)
    quiet = hp.fit(data, model4(), strategy=mk(quiet=True))
    if nm:
        sink = _io.StringIO()
        with contextlib.redirect_stdout(sink):
            loud = hp.fit(data, model4(), strategy=mk(quiet=False))
        flags["verbose_fit_equals_quiet_fit"] = bool(list(loud.parameters.values()) == list(quiet.parameters.values()))
        flags["verbose_fit_reports_its_iterations"] = bool(len(sink.getvalue()) > 0)
    # (b) the strategy's public minimiser called directly, twice, with different parameters: the second answer is that of a fresh object
    if nm:
        def quad(target):
            return lambda v: np.array([v[0] - target[0], v[1] - target[1], 0.0])
        s_ = NmpfitStrategy()
        p1 = [Uniform(0, 10, guess=3.3), Uniform(0, 10, guess=6.1)]
        p2 = [Uniform(0, 100, guess=41.0), Uniform(0, 100, guess=77.0)]
        a1, _ = s_.minimize(p1, quad([3.0, 6.0]))
        a2, _ = s_.minimize(p2, quad([40.0, 80.0]))
        f2, _ = NmpfitStrategy().minimize(p2, quad([40.0, 80.0]))
        flags["direct_minimize_twice_equals_fresh"] = bool(list(a2) == list(f2) and max(abs(a2[0] - 40.0), abs(a2[1] - 80.0)) < 1e-6 and max(abs(a1[0] - 3.0), abs(a1[1] - 6.0)) < 1e-6)
        before = digest(s_._dict)
        flags["direct_minimize_leaves_settings"] = bool(digest(NmpfitStrategy()._dict) == before)
    # (c) ONE free parameter (recovery is promised for position, radius and scaling free; here: never worse than the guess, inside its
    # bounds; the error is recorded)
    for which in ("z", "r"):
        pr = Uniform(truth[which] * 0.8, truth[which] * 1.2, guess=truth[which] * 1.02)
        sph = Sphere(n=1.59, r=pr if which == "r" else truth["r"], center=[truth["x"], truth["y"], pr if which == "z" else truth["z"]])
        m1 = AlphaModel(sph, alpha=1.0, noise_sd=0.05)
        r1 = hp.fit(data, m1, strategy=mk(quiet=True))
        v = list(r1.parameters.values())[0]
        chi = lambda x: float(((m1.forward([x], data).values - data.values) ** 2).sum())
        resid["one_free_parameter_error@" + which] = fnum(abs(v - truth[which]) / truth[which])
        flags["one_free_parameter_not_worse_than_guess@" + which] = bool(chi(v) <= chi(pr.guess) * (1 + 1e-9))
        flags["one_free_parameter_within_bounds@" + which] = bool(pr.lower_bound <= v <= pr.upper_bound)
    return {"resid": resid, "flags": flags, "got": None, "truth": truth}


def run_case(case):
    if case.get("kind") == "forms":
        return _run_forms(case)
    if case.get("kind") == "pegged":
        return _run_pegged(case)
    if case.get("kind") == "shortcut":
        return _run_shortcut(case)
    if case.get("kind") == "startedge":
        return _run_startedge(case)
    if case.get("kind") == "recorded":
        return _run_recorded(case)
    import holopy as hp
    from holopy.core.prior import Uniform
    from holopy.core.metadata import update_metadata
    from holopy.inference import AlphaModel, NmpfitStrategy, LeastSquaresScipyStrategy
    from holopy.scattering import calc_holo, Sphere
    from holopy.scattering.theory import Mie, MieLens
    from vf.monitors import digest
    rng = rng_for(*case["seed"])
    N, sp = case["npix"], case["spacing"]
    W = N * sp
    truth = {"r": case["r"], "x": case["fx"] * W, "y": case["fy"] * W, "z": case["z"], "alpha": case["alpha"]}
    lens = case["theory"] == "MieLens"
    fit_la = lens and case.get("fit_lens_angle", True)
    if fit_la:
        truth["lens_angle"] = case["lens_angle"]
    nmed, wl, pol = 1.33, 0.66, (1, 0)
    spy = sp * case.get("spacing_y_factor", 1.0)
    off = case.get("offset", [0.0, 0.0])
    det = hp.detector_grid(N, (sp, spy))
    det = det.assign_coords(x=det.x.values + off[0], y=det.y.values + off[1])
    dz = float(case.get("det_z", 0.0))
    if dz:
        det = det.assign_coords(z=det.z.values + dz)
        truth["z"] = truth["z"] + dz
    truth["x"] = off[0] + case["fx"] * N * sp
    truth["y"] = off[1] + case["fy"] * N * spy
    th_true = MieLens(lens_angle=case["lens_angle"]) if lens else Mie()
    data = calc_holo(det, Sphere(n=case["n"], r=truth["r"], center=(truth["x"], truth["y"], truth["z"])), nmed, wl, pol, theory=th_true, scaling=truth["alpha"])
    data = update_metadata(data, noise_sd=0.05)
    keys = ["r", "x", "y", "z", "alpha"] + (["lens_angle"] if fit_la else [])
    pert = dict(zip(["r", "x", "y", "z", "alpha", "lens_angle"], case["perturb"]))
    guess = {k: truth[k] * (1 + (pert[k] if case["start"] == "perturbed" else 0.0)) for k in keys}
    bounds = {"r": (0.1, 1.5), "x": (off[0], off[0] + W), "y": (off[1], off[1] + N * spy), "z": (1.0, 40.0), "alpha": (0.3, 1.2), "lens_angle": (0.3, 1.3)}
    if case.get("tight_bounds"):
        bounds = {k: (truth[k] * 0.97, truth[k] * 1.03) for k in keys}
    if case.get("alpha_on_bound"):
        bounds["alpha"] = (0.3, truth["alpha"])
        guess["alpha"] = min(guess["alpha"], truth["alpha"])
    if case.get("z_on_upper_bound"):
        # hostile choice of the edge: a height whose scaled-and-unscaled value exceeds it by one rounding error (true of about every tenth
        # value), so that a minimiser pegged at its scaled limit sits just outside the prior unless the limit is handed over with care
        zt = truth["z"]
        for j in range(400):
            cand = zt + 1e-3 * j
            pr = Uniform(1.0, cand, guess=cand if case.get("z_guess_on_bound") else cand * 0.985)
            if pr.unscale(pr.scale(cand)) > cand:
                zt = cand
                break
        truth["z"] = zt
        data = calc_holo(det, Sphere(n=case["n"], r=truth["r"], center=(truth["x"], truth["y"], truth["z"])), nmed, wl, pol, theory=th_true, scaling=truth["alpha"])
        data = update_metadata(data, noise_sd=0.05)
        bounds["z"] = (1.0, truth["z"])
        guess["z"] = truth["z"] if case.get("z_guess_on_bound") else truth["z"] * 0.985
    if case.get("all_on_bounds"):
        # every generating value sits exactly on an edge of its prior (lower edges, the scaling on its upper edge)
        bounds = {k: ((truth[k], truth[k] * 1.5) if k != "alpha" else (0.3, truth[k])) for k in keys}
        guess = {k: (truth[k] * 1.012 if k != "alpha" else truth[k] * 0.98) for k in keys}      # start inside, a percent away
    pri = {k: Uniform(bounds[k][0], bounds[k][1], guess=guess[k], name=k) for k in keys}
    s = Sphere(n=case["n"], r=pri["r"], center=[pri["x"], pri["y"], pri["z"]])
    theory = (MieLens(lens_angle=pri["lens_angle"]) if fit_la else MieLens(lens_angle=case["lens_angle"])) if lens else Mie()
    # every third problem leaves the wavelength to the data's metadata (a model is then re-used on data taken at another wavelength)
    wl_from_data = bool(case.get("wl_from_data"))
    mk_model = lambda: AlphaModel(s, alpha=pri["alpha"], theory=theory, noise_sd=0.05, medium_index=nmed,
                                  illum_wavelen=None if wl_from_data else wl, illum_polarization=pol)
    model = mk_model()
    npx = int(0.6 * N * N) if case["subset"] else None
    data_full = data
    if case.get("preflat"):
        from holopy.core.metadata import make_subset_data
        data = make_subset_data(data, pixels=int(0.7 * N * N), seed=77)
        npx = None
    elif case.get("flat_then_npixels"):
        from holopy.core.metadata import flat
        data = flat(data)
        npx = int(0.6 * N * N)
    mk_strat = (lambda: NmpfitStrategy(npixels=npx, seed=([1234, 0, np.int64(0), 7][int(case["seed"][-1]) % 4 if isinstance(case["seed"][-1], int) else 0]) if npx else None)) if case["strategy"] == "nmpfit" else (lambda: LeastSquaresScipyStrategy(npixels=npx))
    strat = mk_strat()
    d_model, d_data, d_strat = digest(model), digest(data), digest(strat._dict)
    flags, resid = {}, {}
    np.random.seed(99)
    rng_before = None
    res = hp.fit(data, model, strategy=strat)
    flags["model_untouched"] = bool(digest(model) == d_model)
    flags["data_untouched"] = bool(digest(data) == d_data)
    flags["strategy_settings_unchanged"] = bool(digest(strat._dict) == d_strat)
    names = list(model.parameters.keys())
    flags["parameter_names_are_the_models"] = bool(list(res.parameters.keys()) == names)
    got = res.parameters
    # bounds
    flags["within_bounds"] = bool(all(bounds[k][0] <= got[k] <= bounds[k][1] for k in keys))
    err = max(abs(got[k] - truth[k]) / abs(truth[k]) for k in keys)
    if case["start"] == "truth":
        resid["fixed_point"] = fnum(err)
    elif fit_la:
        # recovery is claimed for position, radius and scaling free; with the lens angle also free the
        # problem has a nearly flat direction -- the error is recorded, not judged
        resid["recovery_with_free_lens_angle"] = fnum(err)
    else:
        resid["recovery"] = fnum(err)
    # misfit never worse than the guess
    def chi2(pars):
        f = model.forward(pars, res.data)
        return float(((f.values - res.data.values) ** 2).sum())
    c_res, c_guess = chi2(got), chi2(model.initial_guess)
    resid["misfit_ratio_minus_1"] = fnum(max(0.0, (c_res - c_guess) / max(c_guess, 1e-300))) if c_guess > 0 else fnum(c_res)
    # result consistent with the forward model at the reported parameters
    holo = res.hologram
    fw = res.forward(got)
    resid["hologram_is_forward"] = relmax(holo.values, fw.values)
    # ... and that forward is the model's own forward on the full detector
    full = model.forward(got, data_full)
    hv = holo
    try:
        resid["hologram_vs_model_forward"] = relmax(hv.transpose(*full.dims).values, full.values) if hv.shape == full.shape or set(hv.dims) == set(full.dims) else relmax(hv.values.ravel(), full.transpose("x", "y", "z").values.ravel())
    except Exception:
        resid["hologram_vs_model_forward"] = relmax(np.sort(hv.values.ravel()), np.sort(full.values.ravel()))
    if set(holo.dims) >= {"x", "y"}:
        flags["hologram_on_detector_coordinates"] = bool(np.allclose(holo.x.values, data_full.x.values, rtol=0, atol=1e-12) and np.allclose(holo.y.values, data_full.y.values, rtol=0, atol=1e-12))
    lp = model.lnposterior(got, res.data)
    resid["max_lnprob"] = fnum(abs(res.max_lnprob - lp) / max(1.0, abs(lp)))
    # second fit with the very same objects (a strategy that was given a seed is repeatable by itself: the global stream is put back
    # only for the scipy strategy, which has no seed of its own)
    if case["strategy"] != "nmpfit":
        np.random.seed(99)
    res2 = hp.fit(data, model, strategy=strat)
    flags["second_fit_identical"] = bool(all(res2.parameters[k] == got[k] for k in keys))
    if not flags["second_fit_identical"]:
        resid["second_fit_diff"] = fnum(max(abs(res2.parameters[k] - got[k]) / abs(got[k]) for k in keys))
    # the same strategy object then fits ANOTHER particle (a series of holograms): other generating values, other guesses, other
    # bounds; started at its generating values -- the result is that of a fresh strategy object with the same settings
    if not (case.get("preflat") or case.get("flat_then_npixels")):
        tb = {"r": truth["r"] * 0.8 + 0.1, "x": truth["x"] - 0.17 * W * (case["fx"] - 0.5), "y": truth["y"] + 0.3 * sp, "z": truth["z"] * 1.3 + 0.5,
              "alpha": truth["alpha"] * 0.93}
        th_b = th_true
        data_b = calc_holo(det, Sphere(n=case["n"], r=tb["r"], center=(tb["x"], tb["y"], tb["z"])), nmed, wl, pol, theory=th_b, scaling=tb["alpha"])
        data_b = update_metadata(data_b, noise_sd=0.05)
        bb = {"r": (0.05, 2.0), "x": (off[0] - 1.0, off[0] + W + 1.0), "y": (off[1] - 1.0, off[1] + N * spy + 1.0), "z": (0.5, 60.0), "alpha": (0.2, 1.4)}
        kb = ["r", "x", "y", "z", "alpha"]
        def mk_b():
            pb = {k: Uniform(bb[k][0], bb[k][1], guess=tb[k], name=k) for k in kb}
            return AlphaModel(Sphere(n=case["n"], r=pb["r"], center=[pb["x"], pb["y"], pb["z"]]), alpha=pb["alpha"],
                              theory=(MieLens(lens_angle=case["lens_angle"]) if lens else Mie()), noise_sd=0.05, medium_index=nmed, illum_wavelen=wl, illum_polarization=pol)
        np.random.seed(99)
        res_rb = hp.fit(data_b, mk_b(), strategy=strat)
        np.random.seed(99)
        res_fb = hp.fit(data_b, mk_b(), strategy=mk_strat())
        flags["reused_strategy_on_other_model_equals_fresh_strategy"] = bool(all(res_rb.parameters[k] == res_fb.parameters[k] for k in kb))
        resid["fixed_point@other_model_same_strategy"] = fnum(max(abs(res_rb.parameters[k] - tb[k]) / abs(tb[k]) for k in kb))
        flags["strategy_settings_unchanged@other_model"] = bool(digest(strat._dict) == d_strat)
    # the derived quantities of a result do not depend on the order they are looked at: on the second result the hologram of the
    # initial guess is read first, then the fitted hologram (the first result was read the other way round)
    def _vs_full(h, pars):
        f = model.forward(pars, data_full)
        try:
            return relmax(h.transpose(*f.dims).values, f.values) if h.shape == f.shape or set(h.dims) == set(f.dims) else relmax(h.values.ravel(), f.transpose("x", "y", "z").values.ravel())
        except Exception:
            return relmax(np.sort(h.values.ravel()), np.sort(f.values.ravel()))
    gh2 = res2.guess_hologram
    resid["guess_hologram_vs_model_forward"] = _vs_full(gh2, model.initial_guess)
    resid["hologram_vs_model_forward@guess_read_first"] = _vs_full(res2.hologram, res2.parameters)
    resid["guess_hologram_vs_model_forward@read_second"] = _vs_full(res.guess_hologram, model.initial_guess)
    # the same model object fitted to a second data set whose metadata differ (other wavelength): what the model takes
    # from the data must come from THIS data set -- result identical to that of a freshly built model
    if wl_from_data:
        wl2 = wl * 0.62
        data2 = calc_holo(det, Sphere(n=case["n"], r=truth["r"], center=(truth["x"], truth["y"], truth["z"])), nmed, wl2, pol, theory=th_true, scaling=truth["alpha"])
        data2 = update_metadata(data2, noise_sd=0.05)
        np.random.seed(99)
        res_b = hp.fit(data2, model, strategy=strat)
        np.random.seed(99)
        res_f = hp.fit(data2, mk_model(), strategy=strat)
        flags["reused_model_on_other_data_equals_fresh_model"] = bool(all(res_b.parameters[k] == res_f.parameters[k] for k in keys))
        if case["start"] == "truth":
            resid["fixed_point@second_dataset"] = fnum(max(abs(res_b.parameters[k] - truth[k]) / abs(truth[k]) for k in keys))
        flags["model_untouched@second_dataset"] = bool(digest(model) == d_model)
    # save / load
    td = tempfile.mkdtemp(prefix="vf_c13_")
    try:
        p = os.path.join(td, "result.h5")
        hp.save(p, res)
        r2 = hp.load(p)
        # a name without extension means the same file for save and load -- also when an OLDER result lies next to it under the full name
        other = locals().get("res_rb")
        if other is not None:
            hp.save(os.path.join(td, "run8.h5"), other)
        try:
            hp.save(os.path.join(td, "run8"), res)
            back8 = hp.load(os.path.join(td, "run8"))
            flags["extensionless_name_round_trips"] = bool(back8.parameters == res.parameters)
        except Exception:
            flags["extensionless_name_round_trips"] = False
        flags["reload_parameters"] = bool(r2.parameters == res.parameters)
        flags["reload_model"] = bool(r2.model == res.model and list(r2.model.parameters.keys()) == names)
        flags["reload_strategy_class"] = bool(type(r2.strategy) is type(res.strategy))
        resid["reload_hologram"] = relmax(np.sort(r2.hologram.values.ravel()), np.sort(res.hologram.values.ravel()))
        resid["reload_data"] = relmax(np.sort(r2.data.values.ravel()), np.sort(res.data.values.ravel()))
        flags["reload_max_lnprob"] = bool(abs(r2.max_lnprob - res.max_lnprob) <= 1e-9 * max(1.0, abs(res.max_lnprob)))
        # the second result is saved BEFORE any of its derived quantities (hologram, max_lnprob) has been looked at,
        # while the first one's already have been: what one result has cached must not be demanded of another
        p2 = os.path.join(td, "result2.h5")
        hp.save(p2, res2)
        r3 = hp.load(p2)
        flags["reload_second_result_parameters"] = bool(r3.parameters == res2.parameters)
        resid["reload_second_result_hologram"] = relmax(np.sort(r3.hologram.values.ravel()), np.sort(res2.hologram.values.ravel()))
    finally:
        shutil.rmtree(td, ignore_errors=True)
    return {"resid": resid, "flags": flags, "err": fnum(err), "chi2": [c_guess, c_res], "got": {k: float(got[k]) for k in keys}, "truth": truth}


# ------------------------------------------------------------------ oracle

TOL = {"one_free_parameter_error": float("inf"), "fixed_point": 1e-9, "fixed_point@second_dataset": 1e-9, "recovery": 1e-6, "recovery_with_free_lens_angle": float("inf"), "misfit_ratio_minus_1": 1e-9, "hologram_is_forward": 1e-10, "hologram_vs_model_forward": 1e-10, "guess_hologram_vs_model_forward": 1e-10,
       "max_lnprob": 1e-10, "reload_hologram": 1e-12, "reload_second_result_hologram": 1e-12, "reload_data": 0.0, "second_fit_diff": 0.0}


def judge(case, obs):
    out = []
    desc = {k: case.get(k) for k in ("theory", "fit_lens_angle", "tight_bounds", "strategy", "subset", "start", "n", "r", "z", "alpha", "npix")}
    # a generating value that sits exactly on an edge of its prior is the regime of known finding F58 (the scipy strategy never hands the
    # bounds to its minimiser); the suffix names the regime, it does not excuse anything: only the scipy mechanisms are registered
    sfx = ".truth_on_bounds" if case.get("all_on_bounds") or case.get("alpha_on_bound") else ""
    for k, v in obs["resid"].items():
        if not v <= TOL[k.split("@")[0]] if "@" in k and k not in TOL else not v <= TOL[k]:
            out.append({"mech": "fit.%s.%s%s" % (k, case["strategy"], sfx), "detail": "%s=%.3e > %.0e; %s got=%s truth=%s" % (k, v, TOL.get(k, TOL[k.split("@")[0]]), desc, obs.get("got"), obs.get("truth"))})
    for k, v in obs["flags"].items():
        if not v:
            out.append({"mech": "fit.%s.%s%s" % (k, case["strategy"], sfx), "detail": "flag false; %s got=%s truth=%s" % (desc, obs.get("got"), obs.get("truth"))})
    return out


def judge_exception(case, o):
    ex = o["exception"]
    regime = ".caller_flattened_data" if case.get("flat_then_npixels") else ""
    return [{"mech": "exception.%s.%s.%s%s" % (ex["type"], case["strategy"], "subset" if case["subset"] else "full", regime),
             "detail": ex["tb"][-1000:] + " ;; %s" % {k: case.get(k) for k in ("theory", "strategy", "subset", "start", "kind")}}]


def nontrivial(case, obs):
    return "err" in obs
