"""C01 Hologram = |scaling*scattered field + unit reference wave|^2 on the detector; history independence."""
import math

import numpy as np

from ..util import rng_for, fnum, loguniform, relmax, sha
from .. import scat

LEVEL_TEXT = ("Runtime monitoring of calc_holo / calc_field / calc_intensity on the real code incl. the compiled Fortran "
              "solvers: (i) generated configurations over all scatterer kinds x compatible theories and options x grid and "
              "point detectors x polarizations x scalings, with contract monitors (finite, detector coordinates, metadata "
              "updated with the optics passed, inputs not mutated) and an oracle that recomputes the hologram/intensity "
              "from a separately executed calc_field; (ii) call histories: the same set of calculations issued in "
              "canonical order, in random permutations with repeats, interleaved with hostile calls (large sizes, "
              "failing calls) and each alone in a fresh interpreter, results compared bitwise; (iii) the history "
              "workload re-run on -fcheck=bounds and ASan/UBSan builds of the extensions with report blocks counted.")
LEVEL_NOTE = "Trusted: numpy/xarray; gfortran code generation (opt vs chk vs asan builds are each compared only with themselves)."
TECHNIQUE = "runtime monitoring: contract monitors + recomputation oracle on recorded executions; history permutation/interleaving with bitwise trace comparison; bounds-checked and ASan/UBSan builds"
RULE = ("identity: configs drawn from 11 (scatterer,theory) kinds with random theory options, grid (incl 1xN, anisotropic, "
        "shifted, cropped, z stacks, axes stored in another order, one labelled channel, user metadata named like coordinates) or point detectors, polarization angle in [0,2pi) with non-unit norm, scaling in {0,1,random}, "
        "optics given as arguments / on the detector / mixed; history: K calculations x orders. non-trivial = scattered "
        "field not identically zero and hologram not constant; distinct by rounded case JSON")
ASSUMPTIONS = ["Tmatrix is driven with polarization (1,0) only, as the theory demands",
               "lens theories are driven with detectors at one z, as they demand",
               "cross-process comparison is bitwise (same binary, same inputs); a numpy/BLAS allocation-dependent last-bit jitter would surface as a violation and be re-examined"]
MIN_NONTRIVIAL = 20
REQUIRED_COUNTERS = ["calc_holo", "calc_field", "calc_intensity"]
CASE_TIMEOUT = 600


def _hist_configs(rng, k):
    kinds = ["mie_sphere", "mie_layered", "mie_spheres", "multisphere", "multisphere", "tmatrix_spheroid", "tmatrix_cylinder",
             "mielens", "lens_mie", "aberrated", "tmatrix_sphere", "mielens_spheres"]
    out = []
    for i in range(k):
        cfg = scat.gen_config(rng, kinds[i % len(kinds)])
        cfg["kind"] = kinds[i % len(kinds)]
        cfg["scaling"] = float(rng.uniform(0.2, 1.5))
        out.append(cfg)
    # near-duplicates: an earlier calculation repeated with exactly ONE input changed (what an incompletely keyed cache,
    # a memo on the scatterer/theory or stale Fortran state would confuse with the earlier call)
    import copy
    changes = ["medium_index", "illum_wavelen", "illum_polarization", "center", "index", "size", "spacing", "scaling"]
    todo = []
    for j in range(k):
        todo.append((j, changes[j % len(changes)]))
        # the theories that keep state in compiled code between calls get the optics changes as well, whatever their place in the list
        if out[j]["theory"]["t"] in ("Tmatrix", "Multisphere") or out[j]["theory"].get("inner", {}).get("t") in ("Tmatrix", "Multisphere"):
            todo += [(j, ch_) for ch_ in ("illum_wavelen", "medium_index", "size") if ch_ != changes[j % len(changes)]]
    for j, ch in todo:
        cfg = copy.deepcopy(out[j])
        o = cfg["optics"]
        if ch == "medium_index":
            o["medium_index"] = o["medium_index"] * 1.01
        elif ch == "illum_wavelen":
            o["illum_wavelen"] = o["illum_wavelen"] * 1.013
        elif ch == "illum_polarization":
            px, py = o["illum_polarization"]
            o["illum_polarization"] = [float(-py), float(px)]
        elif ch == "center":
            def mv(d):
                d = dict(d)
                d["c"] = [d["c"][0] + 0.11, d["c"][1], d["c"][2] + 0.37]
                return d
            cfg["scat"] = scat._map_members(cfg["scat"], mv)
        elif ch == "index":
            def bump(d):
                if "members" in d:
                    bump(d["members"][-1])
                elif isinstance(d.get("n"), list) and d["t"] == "layered":
                    d["n"][-1] = _bump_n(d["n"][-1])
                else:
                    d["n"] = _bump_n(d["n"])
            bump(cfg["scat"])
        elif ch == "size":
            def grow(d):
                if "members" in d:
                    grow(d["members"][0])
                elif isinstance(d.get("r"), list):
                    d["r"] = [v * 0.97 for v in d["r"]]
                elif "r" in d:
                    d["r"] = d["r"] * 0.97
                elif "h" in d:
                    d["h"] = d["h"] * 0.97
            grow(cfg["scat"])
        elif ch == "spacing":
            d = cfg["det"]
            if d["t"] == "grid":
                d["spacing"] = [v * 1.07 for v in d["spacing"]] if isinstance(d["spacing"], list) else d["spacing"] * 1.07
            else:
                d["x"] = [v * 1.07 for v in d["x"]]
        elif ch == "scaling":
            cfg["scaling"] = cfg["scaling"] * 0.5
        cfg["variant_of"] = [j, ch]
        out.append(cfg)
    # ... and with only a THEORY option or the particle orientation changed (a cache shared between theory objects
    # that is keyed on the scatterer and optics alone would hand back the earlier call's intermediate results)
    for j in range(k):
        cfg = copy.deepcopy(out[j])
        th = cfg["theory"]
        what = None
        if "lens_angle" in th:
            th["lens_angle"] = th["lens_angle"] * (0.8 if j % 2 else 1.15) if th["lens_angle"] * 1.15 < 1.5 else th["lens_angle"] * 0.8
            what = "lens_angle"
        elif th["t"] == "Mie":
            cur = scat.MIE_OPTS.index(th.get("kw", {})) if th.get("kw", {}) in scat.MIE_OPTS else 0
            th["kw"] = scat.MIE_OPTS[(cur + 1 + j % 3) % 4]
            what = "mie_options"
        elif th["t"] == "Multisphere":
            # every other option set of the solver (radial component on, the other interaction solver, tight tolerances)
            cur = th.get("kw", {})
            for oi, kw in enumerate(scat.MS_OPTS):
                if kw == cur:
                    continue
                c2 = copy.deepcopy(out[j])
                c2["theory"]["kw"] = kw
                c2["variant_of"] = [j, "multisphere_options_%d" % oi]
                out.append(c2)
            continue
        elif "rot" in cfg["scat"]:
            cfg["scat"]["rot"] = [cfg["scat"]["rot"][0], cfg["scat"]["rot"][1] + 0.21, cfg["scat"]["rot"][2] + 0.4]
            what = "rotation"
        if what is None:
            continue
        cfg["variant_of"] = [j, what]
        out.append(cfg)
    # ... and with only the ABSORPTION of the particle changed (imaginary part of the index; real part, size, shape kept)
    for j in range(k):
        cfg = copy.deepcopy(out[j])

        def absorb(d):
            if "members" in d:
                absorb(d["members"][0])
            elif d["t"] == "layered":
                d["n"][0] = _add_im(d["n"][0])
            else:
                d["n"] = _add_im(d["n"])
        absorb(cfg["scat"])
        cfg["variant_of"] = [j, "absorption"]
        out.append(cfg)
    return out


def _add_im(n):
    if isinstance(n, list):
        return [n[0], n[1] + 0.05]
    return [n, 0.05]


def _bump_n(n):
    if isinstance(n, list):
        return [n[0] * 1.004, n[1]]
    return n * 1.004


def _hostile(rng):
    o = scat.gen_optics(rng)
    k = scat.kmed(o)
    big = {"optics": o, "scat": {"t": "sphere", "n": 1.2 * o["medium_index"], "r": 150.0 / k, "c": [1, 1, 40.0]}, "theory": {"t": "Mie", "kw": {}},
           "det": {"t": "grid", "shape": [3, 3], "spacing": 0.5}}
    absb = {"optics": o, "scat": {"t": "layered", "n": [[1.9, 0.4], 1.1, [1.5, 0.01]], "r": [3.0 / k, 9.0 / k, 30.0 / k], "c": [0, 0, 20.0]},
            "theory": {"t": "Mie", "kw": {}}, "det": {"t": "points", "x": [0.1, 2.0], "y": [0.3, -1.0], "z": 0}}
    manys = {"optics": o, "scat": scat.gen_cluster(rng, o, 6, xmax=4.0), "theory": {"t": "Multisphere", "kw": {"meth": 0}},
             "det": {"t": "grid", "shape": [2, 3], "spacing": 0.4}}
    toolarge = {"optics": o, "scat": {"t": "sphere", "n": 1.5, "r": 2000.0 / k, "c": [0, 0, 5000.0 / k]}, "theory": {"t": "Mie", "kw": {}},
                "det": {"t": "grid", "shape": [2, 2], "spacing": 0.4}, "expect_raise": True}
    overlap = {"optics": o, "scat": {"t": "spheres", "members": [{"t": "sphere", "n": 1.6, "r": 0.5, "c": [0, 0, 10.0]}, {"t": "sphere", "n": 1.6, "r": 0.5, "c": [0, 0, 10.0]}]},
               "theory": {"t": "Multisphere", "kw": {"niter": 2}}, "det": {"t": "grid", "shape": [2, 2], "spacing": 0.4}, "expect_raise": True}
    tmpol = {"optics": dict(o, illum_polarization=[0, 1]), "scat": {"t": "spheroid", "n": 1.5, "r": [0.3, 0.5], "rot": [0, 0.2, 0.1], "c": [1, 1, 12.0]},
             "theory": {"t": "Tmatrix"}, "det": {"t": "grid", "shape": [2, 2], "spacing": 0.4}, "expect_raise": True}
    wrong = {"optics": o, "scat": {"t": "spheroid", "n": 1.5, "r": [0.3, 0.5], "rot": [0, 0.2, 0.1], "c": [1, 1, 12.0]},
             "theory": {"t": "Mie", "kw": {}}, "det": {"t": "grid", "shape": [2, 2], "spacing": 0.4}, "expect_raise": True}
    return [big, absb, manys, toolarge, overlap, tmpol, wrong]


def cases(tier, seed):
    out = []
    rng = rng_for(seed, "c01")
    nid = 140 if tier == "quick" else 3000
    for i in range(nid):
        kind = scat.ALL_KINDS[i % len(scat.ALL_KINDS)]
        cfg = scat.gen_config(rng, kind)
        if i % 9 == 4 and cfg["det"]["t"] == "grid" and min(cfg["det"]["shape"]) >= 3:
            nx, ny = cfg["det"]["shape"]
            cfg["det"]["crop"] = [[1, nx], [0, ny - 1]]
        if i % 9 in (2, 7) and not kind.startswith(("lens", "mielens", "aberrated")):
            # point detector given in spherical coordinates (finite r): the result must carry r, theta, phi as well
            npt = int(rng.integers(1, 9))
            cfg["det"] = {"t": "sph", "r": [float(v) for v in rng.uniform(15, 40, npt)], "theta": [float(v) for v in rng.uniform(0.0, 1.0, npt)],
                          "phi": [float(v) for v in rng.uniform(0, 2 * math.pi, npt)]}
        if cfg["det"]["t"] == "grid" and i % 11 in (5, 8, 10):
            # grids whose stored axis order / number of planes differs from the usual single (z, x, y) plane
            if i % 11 != 8 and not kind.startswith(("lens", "mielens", "aberrated")):
                z0 = float(cfg["det"].get("z") or 0.0)
                cfg["det"]["zs"] = [z0 + 0.35 * k * float(rng.uniform(0.5, 1.5)) for k in range(2 + i % 2)]
            if i % 11 != 5:
                cfg["det"]["order"] = [["z", "y", "x"], ["x", "y", "z"], ["y", "x", "z"], ["y", "z", "x"], ["x", "z", "y"]][int(rng.integers(0, 5))]
        sc = [0.0, 1.0, float(rng.uniform(0.1, 2.0)), float(rng.uniform(0.1, 2.0))][i % 4]
        cost = 6 if kind.startswith(("lens", "tmatrix", "multi")) else 1
        out.append({"id": "id-%d" % i, "kind": "identity", "cfg": cfg, "ckind": kind, "scaling": sc, "user_metadata": bool(i % 7 == 3),
                    "optics_in": ["args", "detector", "mixed", "override"][(i // 4) % 4], "cost": cost})
    # multi-channel identity: per-channel scaling / wavelength / polarization given as dicts in arbitrary key order
    nmc = 30 if tier == "quick" else 600
    for i in range(nmc):
        nch = 2 + i % 2 if i % 5 != 4 else 1          # (one labelled channel: what a one-channel colour image gives)
        labs = [["red", "green", "blue"], ["a", "b", "c"], [405, 532, 658]][(i // 2) % 3][:nch]
        out.append({"id": "idmc-%d" % i, "kind": "identity_multi", "labels": labs, "nmed": float(rng.uniform(1.0, 1.5)),
                    "wl": [float(rng.uniform(0.4, 0.8)) for _ in labs], "pol": [[float(rng.normal()), float(rng.normal())] for _ in labs],
                    "scaling": [float(rng.uniform(0.2, 1.5)) for _ in labs], "n": float(rng.uniform(1.5, 2.2)), "r": float(rng.uniform(0.2, 0.8)),
                    "center": [float(rng.uniform(0, 1.5)), float(rng.uniform(0, 1.5)), float(rng.uniform(5, 20))],
                    "shape": [int(rng.integers(1, 7)), int(rng.integers(2, 7))], "spacing": [float(rng.uniform(0.1, 0.4)), float(rng.uniform(0.1, 0.4))],
                    "seed": [seed, "idmc", i]})
    # the far-field point detector (detector_points(theta, phi): r = infinity), which HoloPy accepts for every calc_* function
    for i in range(6 if tier == "quick" else 60):
        kind = ["mie_sphere", "mie_layered", "multisphere", "tmatrix_spheroid", "mie_spheres", "mie_sphere"][i % 6]
        cfg = scat.gen_config(rng, kind)
        npt = int(rng.integers(1, 6))
        cfg["det"] = {"t": "sph", "r": None, "theta": [float(v) for v in rng.uniform(0.0, 1.0, npt)], "phi": [float(v) for v in rng.uniform(0, 2 * math.pi, npt)]}
        out.append({"id": "farfield-%d" % i, "kind": "farfield", "cfg": cfg, "ckind": kind, "allow_events": ["contract.calc_*.nonfinite"], "cost": 3})
    # histories
    ngroups = 1 if tier == "quick" else 6
    for g in range(ngroups):
        grng = rng_for(seed, "c01hist", g)
        cfgs = _hist_configs(grng, 12)
        K = len(cfgs)
        host = _hostile(grng)
        nperm = 3 if tier == "quick" else 16
        orders = [("canon", list(range(K)))]
        for p in range(nperm):
            o = list(grng.permutation(K)) + [int(v) for v in grng.integers(0, K, 4)]
            orders.append(("perm%d" % p, [int(v) for v in o]))
        for name, order in orders:
            out.append({"id": "hist-g%d-%s" % (g, name), "kind": "history", "group": g, "cfgs": cfgs, "order": order, "hostile": [],
                        "proc": "h%d-%s" % (g, name), "cost": 20})
        # hostile interleaving: a hostile call before every calculation
        for fl in (["opt", "chk", "asan"]):
            o = [int(v) for v in grng.permutation(K)]
            c = {"id": "hist-g%d-hostile-%s" % (g, fl), "kind": "history", "group": g, "cfgs": cfgs, "order": o, "hostile": host,
                 "proc": "h%d-hostile-%s" % (g, fl), "flavour": fl, "cost": 40, "timeout": 1500}
            out.append(c)
            if fl != "opt":
                out.append({"id": "hist-g%d-canon-%s" % (g, fl), "kind": "history", "group": g, "cfgs": cfgs, "order": list(range(K)), "hostile": [],
                            "proc": "h%d-canon-%s" % (g, fl), "flavour": fl, "cost": 30, "timeout": 1500})
        # each calculation alone in a fresh interpreter
        for i in range(K):
            out.append({"id": "hist-g%d-fresh-%d" % (g, i), "kind": "history", "group": g, "cfgs": cfgs, "order": [i], "hostile": [],
                        "proc": "h%d-fresh-%d" % (g, i), "cost": 5})
    return out


# ------------------------------------------------------------------ child

def _objs(cfg, optics_in="args"):
    o = cfg["optics"]
    s = scat.build_scatterer(cfg["scat"])
    th = scat.build_theory(cfg["theory"])
    if optics_in == "args":
        det = scat.build_detector(cfg["det"])
        args = dict(o)
    elif optics_in == "detector":
        det = scat.build_detector(cfg["det"], optics=o)
        args = {}
    elif optics_in == "mixed":
        det = scat.build_detector(cfg["det"], optics={"medium_index": o["medium_index"]})
        args = {"illum_wavelen": o["illum_wavelen"], "illum_polarization": o["illum_polarization"]}
    else:  # override: detector carries other values, arguments win
        det = scat.build_detector(cfg["det"], optics={"medium_index": 1.0, "illum_wavelen": 0.123, "illum_polarization": [0.6, 0.8], "noise_sd": 0.25})
        args = dict(o)
    return det, s, th, args


def _unit_pol(p):
    p = np.asarray(p, dtype=float)
    p = np.append(p, 0.0)
    return p / np.sqrt((p ** 2).sum())


def _identity(det, s, th, args, scaling, pol):
    from holopy.scattering import calc_holo, calc_field, calc_intensity
    f = calc_field(det, s, theory=th, **args)
    h = calc_holo(det, s, theory=th, scaling=scaling, **args)
    I = calc_intensity(det, s, theory=th, **args)
    fx = f.sel(vector="x")
    fy = f.sel(vector="y")
    p = _unit_pol(pol)
    ref = np.abs(scaling * fx.values + p[0]) ** 2 + np.abs(scaling * fy.values + p[1]) ** 2
    hv = h.transpose(*fx.dims).values
    iv = I.transpose(*fx.dims).values
    return f, h, I, ref, hv, iv, np.abs(fx.values) ** 2 + np.abs(fy.values) ** 2


@scat.guarded
def run_case(case):
    return globals()["_run_" + case["kind"]](case)


def _run_farfield(case):
    from holopy.scattering import calc_holo, calc_field, calc_intensity
    det, s, th, args = _objs(case["cfg"])
    f = calc_field(det, s, theory=th, **args).values
    h = calc_holo(det, s, theory=th, scaling=0.8, **args).values
    I = calc_intensity(det, s, theory=th, **args).values
    bad = ~np.isfinite(f[..., :2]).all(axis=-1)           # points where a transverse field component is not a number
    flags = {"finite_on_farfield_detector": bool(np.isfinite(f).all() and np.isfinite(h).all() and np.isfinite(I).all()),
             # a field that is not a number must not come out as a finite hologram / intensity
             "hologram_does_not_hide_nan": bool(np.all(~np.isfinite(h.ravel()[bad.ravel()])) and np.all(~np.isfinite(I.ravel()[bad.ravel()])))}
    return {"resid": {}, "flags": flags, "fmax": 1.0, "n_nan_points": int(bad.sum())}


def _run_identity(case):
    from holopy.scattering import calc_holo
    cfg = case["cfg"]
    det, s, th, args = _objs(cfg, case["optics_in"])
    sc = case["scaling"]
    pol = cfg["optics"]["illum_polarization"]
    f, h, I, ref, hv, iv, iref = _identity(det, s, th, args, sc, pol)
    resid = {"holo_identity": relmax(hv, ref), "intensity_identity": relmax(iv, iref)}
    if case.get("user_metadata"):
        # metadata of the user's own on the detector, with names that are coordinate names elsewhere: carried along, nothing else changes
        det2 = det.copy()
        det2.attrs = dict(det.attrs, theta=0.3, phi=1.2, r=7.0, flat="no", point=3)
        h2_ = calc_holo(det2, s, theory=th, scaling=sc, **args)
        flags_um = bool(np.array_equal(h2_.values, h.values) and h2_.attrs.get("theta") == 0.3 and h2_.attrs.get("point") == 3)
    else:
        flags_um = None
    if cfg["det"]["t"] == "grid":
        # independent per-pixel evaluation: the same positions as a point detector, compared by coordinate label
        from holopy.scattering import calc_field
        from holopy.core.metadata import detector_points
        X, Y, Z = np.meshgrid(det.x.values, det.y.values, det.z.values, indexing="ij")
        pts = detector_points(x=X.ravel(), y=Y.ravel(), z=Z.ravel())
        rest = {k: v for k, v in cfg["optics"].items() if k not in args}
        if rest:
            from holopy.core.metadata import update_metadata
            pts = update_metadata(pts, **rest)
        fp = calc_field(pts, s, theory=th, **args)
        worst = 0.0
        for comp in ("x", "y", "z"):
            g = f.sel(vector=comp).transpose("x", "y", "z").values.ravel()
            worst = max(worst, float(np.abs(g - fp.sel(vector=comp).values).max()))
        resid["grid_pixel_vs_point"] = fnum(worst / max(float(np.abs(fp.values).max()), 1e-300))
    h0 = calc_holo(det, s, theory=th, scaling=0, **args)
    resid["scaling0_minus_1"] = fnum(float(np.abs(h0.values - 1.0).max()))
    # keyword vs positional call forms agree bitwise
    o = cfg["optics"]
    flags = {}
    if case["optics_in"] == "args":
        h2 = calc_holo(det, s, o["medium_index"], o["illum_wavelen"], o["illum_polarization"], th, sc)
        flags["positional_same"] = bool(np.array_equal(h2.values, h.values))
    if flags_um is not None:
        flags["user_metadata_named_like_coordinates_is_metadata"] = flags_um
    flags["scaling1_default"] = True
    if sc == 1.0:
        hd = calc_holo(det, s, theory=th, **args)
        flags["scaling1_default"] = bool(np.array_equal(hd.values, h.values))
    return {"resid": resid, "flags": flags, "fmax": fnum(float(np.abs(f.values).max())), "hptp": fnum(float(np.ptp(h.values))),
            "npix": int(h.size)}


def _run_identity_multi(case):
    from holopy.scattering import calc_holo, calc_field, calc_intensity, Sphere
    from holopy.core.metadata import detector_grid
    rng = rng_for(*case["seed"])
    labs = case["labels"]
    nch = len(labs)

    def shuffled(vals):
        ks = [int(i) for i in rng.permutation(nch)]
        return {labs[k]: vals[k] for k in ks}
    wl, pol, sc = shuffled(case["wl"]), shuffled([tuple(p) for p in case["pol"]]), shuffled(case["scaling"])
    det = detector_grid(tuple(case["shape"]), tuple(case["spacing"]), extra_dims={"illumination": labs})
    s = Sphere(n=case["n"], r=case["r"], center=tuple(case["center"]))
    h = calc_holo(det, s, case["nmed"], wl, pol, scaling=sc)
    f = calc_field(det, s, case["nmed"], wl, pol)
    I = calc_intensity(det, s, case["nmed"], wl, pol)
    worst_h = worst_i = 0.0
    flags = {}
    for k, l in enumerate(labs):
        fx = f.sel(illumination=l, vector="x")
        fy = f.sel(illumination=l, vector="y")
        p = _unit_pol(case["pol"][k])
        ref = np.abs(case["scaling"][k] * fx.values + p[0]) ** 2 + np.abs(case["scaling"][k] * fy.values + p[1]) ** 2
        worst_h = max(worst_h, relmax(h.sel(illumination=l).transpose(*fx.dims).values, ref))
        worst_i = max(worst_i, relmax(I.sel(illumination=l).transpose(*fx.dims).values, np.abs(fx.values) ** 2 + np.abs(fy.values) ** 2))
        got_wl = h.attrs["illum_wavelen"]
        flags["wavelength_label@%s" % l] = bool(float(got_wl.sel(illumination=l)) == case["wl"][k])
    return {"resid": {"holo_identity": fnum(worst_h), "intensity_identity": fnum(worst_i)}, "flags": flags,
            "fmax": fnum(float(np.abs(f.values).max())), "hptp": fnum(float(np.ptp(h.values))), "npix": int(h.size)}


def _run_history(case):
    from holopy.scattering import calc_holo, calc_field
    cfgs = case["cfgs"]
    hostile = case["hostile"]
    recs = []
    hcount = hraised = 0
    for pos, i in enumerate(case["order"]):
        if hostile:
            hc = hostile[pos % len(hostile)]
            hcount += 1
            try:
                det, s, th, args = _objs(hc)
                calc_holo(det, s, theory=th, **args)
            except Exception as e:   # hostile calls may fail; they must not disturb later results
                hraised += 1
        cfg = cfgs[i]
        det, s, th, args = _objs(cfg)
        try:
            h = calc_holo(det, s, theory=th, scaling=cfg["scaling"], **args)
            f = calc_field(det, s, theory=th, **args)
            recs.append({"i": i, "h": [float(v) for v in h.values.ravel()], "fsha": sha(f.values)})
        except Exception as e:   # a calculation that fails must fail the same way in every history
            recs.append({"i": i, "h": [], "fsha": "raised:" + type(e).__name__})
    return {"recs": recs, "hostile_calls": hcount, "hostile_raised": hraised, "resid": {}, "fmax": 1.0, "hptp": 1.0}


# ------------------------------------------------------------------ oracle

TOL = {"holo_identity": 1e-12, "intensity_identity": 1e-12, "scaling0_minus_1": 8.9e-16, "grid_pixel_vs_point": 1e-10}


def judge(case, obs):
    out = []
    if case["kind"] == "identity_multi":
        for k, v in obs["resid"].items():
            if not v <= TOL[k]:
                out.append({"mech": "identity_multi.%s" % k, "detail": "%s=%.3e > %.1e; labels=%s" % (k, v, TOL[k], case["labels"])})
        for k, v in obs["flags"].items():
            if not v:
                out.append({"mech": "identity_multi.%s" % k.split("@")[0], "detail": "flag %s false; labels=%s" % (k, case["labels"])})
    if case["kind"] == "farfield":
        for k, v in obs["flags"].items():
            if not v:
                out.append({"mech": "farfield.%s" % k, "detail": "flag false; kind=%s theory=%s; points with a non-finite field: %s" % (case["ckind"], case["cfg"]["theory"], obs.get("n_nan_points"))})
    if case["kind"] == "identity":
        desc = {"ckind": case["ckind"], "scaling": case["scaling"], "optics_in": case["optics_in"], "theory": case["cfg"]["theory"], "det": case["cfg"]["det"].get("t")}
        for k, v in obs["resid"].items():
            if not v <= TOL[k]:
                out.append({"mech": "identity.%s" % k, "detail": "%s=%.3e > %.1e; %s" % (k, v, TOL[k], desc)})
        for k, v in obs["flags"].items():
            if not v:
                out.append({"mech": "identity.%s" % k, "detail": "flag false; %s" % desc})
    return out


def judge_global(cases, obs):
    """bitwise equality of every calculation across orders, interleavings and processes (per build flavour)."""
    out = []
    ref = {}
    for c in cases:
        if c["kind"] != "history":
            continue
        o = obs.get(c["id"], {})
        if "obs" not in o or not isinstance(o["obs"], dict):
            continue
        fl = c.get("flavour", "opt")
        for pos, r in enumerate(o["obs"]["recs"]):
            key = (c["group"], fl, r["i"])
            sig = (tuple(r["h"]), r["fsha"])
            if key not in ref:
                ref[key] = (sig, c["id"], pos)
            elif ref[key][0] != sig:
                a = np.array(ref[key][0][0]); b = np.array(r["h"])
                d = float(np.abs(a - b).max() / max(np.abs(a).max(), 1e-300)) if a.shape == b.shape else float("inf")
                th = c["cfgs"][r["i"]]["theory"]["t"]
                out.append({"mech": "history.differs.%s" % th, "case": c["id"], "cases": [c["id"], ref[key][1]],
                            "detail": "calculation #%d (%s, %s build) differs between %s[pos %d] and %s[pos %d]: max rel diff %.3e (field digest %s)"
                                      % (r["i"], c["cfgs"][r["i"]]["kind"], fl, ref[key][1], ref[key][2], c["id"], pos, d,
                                         "equal" if ref[key][0][1] == r["fsha"] else "differs")})
    return out


def nontrivial(case, obs):
    return obs.get("fmax", 0) > 0 and obs.get("hptp", 0) > 0


def evidence_extra(cases, obs):
    hist = [c for c in cases if c["kind"] == "history"]
    comps = 0
    hostile = raised = 0
    procs = set()
    for c in hist:
        o = obs.get(c["id"], {}).get("obs")
        if isinstance(o, dict):
            comps += len(o["recs"])
            hostile += o["hostile_calls"]; raised += o["hostile_raised"]
            procs.add(c["proc"])
    return {"history_calculations_compared": comps, "history_processes": len(procs), "hostile_calls": hostile, "hostile_calls_that_raised": raised,
            "history_orders": [c["id"] for c in hist][:12]}
