"""C05 Holograms covariant under in-plane shift, axial rotation and mirroring."""
import math

import numpy as np

from ..util import rng_for, fnum, loguniform, relmax
from .. import scat

LEVEL_TEXT = ("Runtime monitoring with a metamorphic oracle on recorded executions of the real solvers: each generated "
              "configuration (all scatterer kinds x all theories incl. T-matrix, MieLens, AberratedMieLens and the numerical "
              "lens wrapper, particle above and below focus) is executed as given, shifted in-plane together with its "
              "detector (whole-pixel shifts on grids, arbitrary shifts on point detectors), rotated about the optical axis "
              "together with polarization and detector points by an arbitrary angle, and mirrored; holograms must coincide "
              "and field vectors must rotate/mirror accordingly. Sphere holograms under x/y polarization on a grid centred "
              "on the sphere must be symmetric about both axes.")
LEVEL_NOTE = "Trusted: rotation/shift of the inputs in floating point perturbs them by a few ulp; iterative/truncating solvers (Multisphere, T-matrix) get tolerances tied to their own convergence settings."
TECHNIQUE = "runtime monitoring: metamorphic relations (shift, rotation, mirror, symmetry) between recorded executions of the real solvers"
RULE = ("configs from 11 (scatterer, theory) kinds (every fourth cluster built along the coordinate axes: members share coordinates exactly); rotation angles uniform in [0,2pi) (pi only for T-matrix, whose "
        "polarization is fixed), polarization angles uniform incl. non-axis-aligned; shifts of 1..5 pixels and arbitrary "
        "real shifts; non-trivial = scattered field not identically zero; distinct by rounded case JSON")
ASSUMPTIONS = ["T-matrix accepts only polarization (1,0): its rotation covariance is checked for 180 degrees (hologram and in-plane field components) and its mirror symmetry in the x-z plane",
               "Lens (numerical) uses a fixed azimuthal quadrature grid, so rotation covariance holds to quadrature accuracy (azimuthal order chosen from k*rho_max*sin(lens_angle), tolerance 1e-6)"]
MIN_NONTRIVIAL = 20
REQUIRED_COUNTERS = ["calc_holo", "calc_field"]
CASE_TIMEOUT = 900


def _lens_nphi(cfg):
    """azimuthal quadrature order that resolves exp(i k rho sin(theta) cos(phi)) for every detector point:
    the trapezoid rule on a periodic integrand is spectrally accurate once the order exceeds twice the
    highest harmonic (~ k rho_max sin(lens_angle)); below that, rotation covariance only holds to quadrature error."""
    k = scat.kmed(cfg["optics"])
    d = cfg["det"]
    if d["t"] == "grid":
        x, y = scat.grid_positions(d)
        X, Y = np.meshgrid(x, y, indexing="ij")
        px, py = X.ravel(), Y.ravel()
    else:
        px, py = np.asarray(d["x"]), np.asarray(d["y"])
    cx, cy = cfg["scat"]["c"][0], cfg["scat"]["c"][1]
    rho = float(np.sqrt((px - cx) ** 2 + (py - cy) ** 2).max())
    n = int(2 * k * rho * math.sin(cfg["theory"]["lens_angle"])) + 56
    return n + (n % 2)


def cases(tier, seed):
    out = []
    rng = rng_for(seed, "c05")
    n = 130 if tier == "quick" else 2600
    for i in range(n):
        kind = scat.ALL_KINDS[i % len(scat.ALL_KINDS)]
        cfg = scat.gen_config(rng, kind)
        if cfg["theory"]["t"] == "Lens":
            cfg["theory"]["nphi"] = _lens_nphi(cfg)
        tm = cfg["theory"]["t"] == "Tmatrix"
        alpha = math.pi if tm else float(rng.uniform(0, 2 * math.pi))
        if i % 13 == 5 and not tm:
            alpha = [math.pi / 2, math.pi, 3 * math.pi / 2, 1e-3][i % 4]
        cost = 8 if kind.startswith(("lens", "tmatrix", "multi")) else 1
        out.append({"id": "cov-%d" % i, "kind": "cov", "ckind": kind, "cfg": cfg, "alpha": alpha, "pix": [int(rng.integers(-5, 6)), int(rng.integers(-5, 6))],
                    "shift": [float(rng.normal()), float(rng.normal())], "cost": cost})
    # default call form on bent (L-shaped) clusters whose largest separation is close to the 30-radius rule: the theory
    # HoloPy picks by itself must not depend on how the configuration is shifted, turned or mirrored
    na = 16 if tier == "quick" else 300
    for i in range(na):
        o = scat.gen_optics(rng)
        k = scat.kmed(o)
        r = float(rng.uniform(0.5, 1.3)) / k
        frac = [1 - 1e-7, 0.99, 0.9, 1 + 1e-7, 1.05, 0.75][i % 6]          # (the rule carries a relative tolerance of 1e-9 since F121: 1e-7 is clear of it on either side)
        leg = 30.0 * r * frac / math.sqrt(2.0)          # two legs at right angles: the hypotenuse is the largest separation
        th0 = float(rng.uniform(0, 2 * math.pi))
        e1 = np.array([math.cos(th0), math.sin(th0), 0.0]); e2 = np.array([-math.sin(th0), math.cos(th0), 0.0])
        c0 = np.array([0.4, 0.7, float(rng.uniform(15, 30)) / k + 40 * r])
        mem = [{"t": "sphere", "n": scat.gen_index(rng, o, False), "r": r * float(rng.uniform(0.6, 1.0)) if j else r, "c": [float(v) for v in c]}
               for j, c in enumerate([c0, c0 + leg * e1, c0 + leg * e2])]
        cfg = {"optics": o, "scat": {"t": "spheres", "members": mem}, "theory": {"t": "auto"}, "det": scat.gen_points(rng, n=6)}
        out.append({"id": "auto-%d" % i, "kind": "cov", "ckind": "auto_cluster", "cfg": cfg, "alpha": [math.pi / 4, 0.3, 2.5, math.pi / 2][i % 4] if i % 2 else float(rng.uniform(0, 2 * math.pi)),
                    "pix": [1, -2], "shift": [float(rng.normal()), float(rng.normal())], "cost": 10})
    # refusals are covariant too: a cluster that is refused as too extended is refused in every orientation
    for i in range(8 if tier == "quick" else 60):
        o = scat.gen_optics(rng)
        k = scat.kmed(o)
        r = float(rng.uniform(0.5, 1.5)) / k
        # relative to the centroid the far sphere sits at 2/3 of this distance, the near ones at 1/3 on the other side:
        # only the far one is beyond Multisphere's stated limit of 1e4/k, on the positive or on the negative side
        far = float(rng.uniform(1.6e4, 2.8e4)) / k * (1 if i % 2 else -1)
        axis = i // 2 % 2
        c0 = [0.5, 0.7, 20.0 / k + 10 * r]
        c2 = list(c0); c2[axis] += far
        mem = [{"t": "sphere", "n": scat.gen_index(rng, o, False), "r": r, "c": c0}, {"t": "sphere", "n": scat.gen_index(rng, o, False), "r": r, "c": [c0[0] + 3 * r, c0[1], c0[2]]},
               {"t": "sphere", "n": scat.gen_index(rng, o, False), "r": r, "c": c2}]
        cfg = {"optics": o, "scat": {"t": "spheres", "members": mem}, "theory": {"t": "Multisphere", "kw": {}}, "det": scat.gen_points(rng, n=3)}
        out.append({"id": "guard-%d" % i, "kind": "guard", "cfg": cfg, "cost": 3})
    ns = 40 if tier == "quick" else 800
    for i in range(ns):
        o = scat.gen_optics(rng, pol="axis")
        lens = i % 3
        zs = float(rng.uniform(-3, 12)) if lens else float(rng.uniform(5, 25))
        s = scat.gen_sphere(rng, o, xmax=12.0, center=[0.0, 0.0, zs], absorbing=False if lens else None)
        if lens and isinstance(s["n"], list):
            s["n"] = s["n"][0]
        th = [{"t": "Mie", "kw": {}}, {"t": "MieLens", "lens_angle": float(rng.uniform(0.2, 1.2)), "kw": {}},
              {"t": "Lens", "lens_angle": float(rng.uniform(0.2, 1.2)), "inner": {"t": "Mie", "kw": {}}, "nth": 30, "nphi": 128}][lens]
        nx, ny = int(rng.integers(2, 9)), int(rng.integers(2, 9))
        sp = [float(rng.uniform(0.05, 0.3)), float(rng.uniform(0.05, 0.3))]
        out.append({"id": "sym-%d" % i, "kind": "sym", "optics": o, "scat": s, "theory": th, "shape": [nx, ny], "spacing": sp, "cost": 4 if lens == 2 else 1})
    return out


# ------------------------------------------------------------------ child

def _run(cfg, want_field=True, th=None):
    from holopy.scattering import calc_holo, calc_field
    o = cfg["optics"]
    s = scat.build_scatterer(cfg["scat"])
    if th is None:
        th = scat.build_theory(cfg["theory"])
    det = scat.build_detector(cfg["det"])
    a = dict(medium_index=o["medium_index"], illum_wavelen=o["illum_wavelen"], illum_polarization=o["illum_polarization"])
    h = calc_holo(det, s, theory=th, scaling=0.8, **a)
    f = calc_field(det, s, theory=th, **a) if want_field else None
    return h, f


@scat.guarded
def run_case(case):
    return globals()["_run_" + case["kind"]](case)


def _run_guard(case):
    from holopy.scattering.errors import InvalidScatterer
    cfg = case["cfg"]
    outcomes = []
    for c in (cfg, scat.mirror_config(cfg), scat.rotate_config(cfg, math.pi, rotate_pol=True), scat.rotate_config(cfg, math.pi / 2, rotate_pol=True)):
        try:
            h, _ = _run(c, want_field=False)
            outcomes.append("value")
        except InvalidScatterer:
            outcomes.append("refused")
    return {"resid": {}, "flags": {"refusal_same_in_every_orientation": bool(len(set(outcomes)) == 1)}, "outcomes": outcomes, "fmax": 1.0}


def _run_cov(case):
    cfg = case["cfg"]
    tm = cfg["theory"]["t"] == "Tmatrix"
    resid = {}
    # one theory object serves every call of the case, as in ordinary use (stale per-object state must not leak
    # from one configuration into the next); every other case builds a fresh object per call
    shared = scat.build_theory(cfg["theory"]) if int(case["id"].split("-")[1]) % 2 == 0 else None
    h0, f0 = _run(cfg, th=shared)
    # ---- shift on the detector as given
    if cfg["det"]["t"] == "grid":
        sp = cfg["det"]["spacing"]
        dx, dy = case["pix"][0] * sp[0], case["pix"][1] * sp[1]
    else:
        dx, dy = case["shift"]
    h1, f1 = _run(scat.shift_config(cfg, dx, dy), th=shared)
    resid["shift_holo"] = relmax(h1.values, h0.values)
    resid["shift_field"] = relmax(f1.values, f0.values)
    # ---- rotation / mirror on a point detector with the same locations
    pc = dict(cfg)
    if cfg["det"]["t"] == "grid":
        pc["det"] = scat.grid_to_points(cfg["det"])
    hp_, fp_ = _run(pc, th=shared)
    if cfg["det"]["t"] == "grid":
        # grid vs points at identical positions (also C07) -- only recorded here
        resid["points_vs_grid"] = relmax(hp_.values.ravel(), h0.transpose("x", "y", "z").values.ravel())
    al = case["alpha"]
    hr, fr = _run(scat.rotate_config(pc, al, rotate_pol=not tm), th=shared)
    resid["rot_holo"] = relmax(hr.values, hp_.values)
    c, s_ = math.cos(al), math.sin(al)
    F = fp_.values     # (point, vector)
    if tm:
        exp = np.stack([F[:, 0], F[:, 1], -F[:, 2]], axis=1)   # full rotation by pi, then pol -> -pol
    else:
        exp = np.stack([c * F[:, 0] - s_ * F[:, 1], s_ * F[:, 0] + c * F[:, 1], F[:, 2]], axis=1)
    resid["rot_field"] = relmax(fr.values, exp)
    hm, fm = _run(scat.mirror_config(pc), th=shared)
    resid["mirror_holo"] = relmax(hm.values, hp_.values)
    resid["mirror_field"] = relmax(fm.values, np.stack([F[:, 0], -F[:, 1], F[:, 2]], axis=1))
    th = cfg["theory"]["t"]
    resid = {"%s@%s" % (k, th): v for k, v in resid.items()}
    flags = {}
    if th == "auto":
        from holopy.scattering.interface import determine_default_theory_for
        chosen = [type(determine_default_theory_for(scat.build_scatterer(c["scat"]))).__name__
                  for c in (pc, scat.shift_config(cfg, dx, dy), scat.rotate_config(pc, al, rotate_pol=True), scat.mirror_config(pc))]
        flags["default_theory_same_under_transform"] = bool(len(set(chosen)) == 1)
        return {"resid": resid, "flags": flags, "fmax": fnum(float(np.abs(f0.values).max())), "chosen": chosen}
    return {"resid": resid, "flags": flags, "fmax": fnum(float(np.abs(f0.values).max()))}


def _run_sym(case):
    """sphere at the centre of the grid, x- or y-polarized light: hologram symmetric about both axes"""
    nx, ny = case["shape"]
    sp = case["spacing"]
    s = dict(case["scat"])
    s["c"] = [(nx - 1) * sp[0] / 2, (ny - 1) * sp[1] / 2, s["c"][2]]
    cfg = {"optics": case["optics"], "scat": s, "theory": case["theory"], "det": {"t": "grid", "shape": [nx, ny], "spacing": sp}}
    h, f = _run(cfg, want_field=True)
    v = h.transpose("x", "y", "z").values[:, :, 0]
    th = case["theory"]["t"]
    resid = {"sym_x@" + th: relmax(v[::-1, :], v), "sym_y@" + th: relmax(v[:, ::-1], v)}
    return {"resid": resid, "flags": {}, "fmax": fnum(float(np.abs(f.values).max()))}


# ------------------------------------------------------------------ oracle

def _tol(case, key):
    th = case["cfg"]["theory"] if "cfg" in case else case["theory"]
    t = th["t"]
    if key.startswith("points_vs_grid"):
        return 1e-9
    if key.startswith("shift") and t != "Multisphere":
        # same dimensionless problem up to rounding of the shifted coordinates
        return 1e-9
    if t == "auto":
        return 3 * math.sqrt(1e-5)       # either Mie superposition or the iterative solver; the choice itself is a flag
    if t == "Multisphere":
        # iterative solver: the transformed centres differ by rounding, which can change the iteration count
        return 3 * math.sqrt(th.get("kw", {}).get("qeps1", 1e-5))   # truncation tolerance acts on efficiencies (quadratic in amplitude)
    if t == "Tmatrix":
        return 5e-6
    if t == "Lens":
        return 1e-6
    return 1e-9


def judge(case, obs):
    out = []
    for k, v in obs.get("flags", {}).items():
        if not v:
            if k == "refusal_same_in_every_orientation":
                out.append({"mech": "guard.%s" % k, "detail": "outcomes for (as given, mirrored, turned by pi, turned by pi/2): %s" % obs.get("outcomes")})
                continue
            out.append({"mech": "auto.%s" % k, "detail": "theories chosen for (as given, shifted, rotated, mirrored): %s; alpha=%s" % (obs.get("chosen"), case.get("alpha"))})
    for k, v in obs["resid"].items():
        base = k.split("@")[0]
        t = _tol(case, base)
        if not v <= t:
            cfg = case.get("cfg", case)
            out.append({"mech": "%s.%s" % (base, k.split("@")[1]),
                        "detail": "%s=%.3e > %.0e; alpha=%s pol=%s theory=%s scat=%s" % (k, v, t, case.get("alpha"), cfg["optics"]["illum_polarization"], cfg["theory"], cfg["scat"]["t"])})
    return out


def nontrivial(case, obs):
    return obs.get("fmax", 0) > 0
