"""C07 Pixel value depends only on position: grids, points, crops, subsets agree."""
import math

import numpy as np

from ..util import rng_for, fnum, loguniform, relmax
from .. import scat

LEVEL_TEXT = ("Runtime monitoring on recorded executions of the real code: the same detector locations are supplied as a "
              "regular grid (any shape incl. 1xN and odd sizes, anisotropic spacing, shifted origin), as a cropped "
              "sub-grid, as an explicit point list and as random pixel subsets of an image (1..all pixels, several seeds), "
              "for every theory; an oracle compares the values location by location, checks calc(select(x)) == "
              "select(calc(x)), and a contract monitor on make_subset_data checks distinctness, seed reproducibility, kept "
              "values/coordinates/metadata and remembered axes. A purity monitor digests every argument before and after "
              "every call, including sequences of calculations sharing one detector object.")
LEVEL_NOTE = "Trusted: numpy/xarray indexing used by the oracle."
TECHNIQUE = "runtime monitoring: relational oracle across detector representations on recorded executions; contract + purity monitors on make_subset_data and calc_*"
RULE = ("pos: configs from 11 (scatterer,theory) kinds on grids of random shape, 40 percent with descending / unsorted axes; crops by isel and subimage; subsets of "
        "size {1, 2, random, all-1, all}; subset: images incl. 2-channel, seeds; history: 6-12 calculations sharing one detector, each repeated with the wavelength / medium index overridden and compared later with the same locations as points. "
        "non-trivial = hologram not constant over the grid; distinct by rounded case JSON")
ASSUMPTIONS = ["MieLens in its default 'check' mode chooses interpolation from the number of points, so representations agree to interpolation accuracy (1e-9), not bitwise"]
MIN_NONTRIVIAL = 20
REQUIRED_COUNTERS = ["calc_holo", "make_subset_data"]
CASE_TIMEOUT = 900


def cases(tier, seed):
    out = []
    rng = rng_for(seed, "c07")
    n = 110 if tier == "quick" else 2600
    for i in range(n):
        kind = scat.ALL_KINDS[i % len(scat.ALL_KINDS)]
        cfg = scat.gen_config(rng, kind)
        cfg["det"] = scat.gen_grid(rng, maxn=8 if kind.startswith(("lens", "tmatrix")) else 11)
        if i % 5 in (1, 3):
            # descending or unsorted axes: a flipped image, a negative spacing, rows picked in any order
            nx, ny = cfg["det"]["shape"]
            sel = {"x": list(range(nx)), "y": list(range(ny))}
            for ax, m in (("x", nx), ("y", ny)):
                u = rng.random()
                if u < 0.45:
                    sel[ax] = sel[ax][::-1]
                elif u < 0.7 and m >= 3:
                    sel[ax] = [int(v) for v in rng.permutation(m)[:int(rng.integers(2, m + 1))]]
            if sel["x"] == list(range(nx)) and sel["y"] == list(range(ny)):
                sel["y" if ny > 1 else "x"] = sel["y" if ny > 1 else "x"][::-1]
            cfg["det"]["sel"] = sel
        cost = 8 if kind.startswith(("lens", "tmatrix", "multi")) else 1
        out.append({"id": "pos-%d" % i, "kind": "pos", "ckind": kind, "cfg": cfg, "seed": [seed, "pos", i], "cost": cost})
    # more than a thousand locations in one call (theories may work through long lists in blocks): grid vs crops vs points
    for i, kind in enumerate(["lens_mie", "mie_sphere", "mielens"] if tier == "quick" else ["lens_mie", "mie_sphere", "mielens", "multisphere", "lens_mie", "aberrated"]):
        cfg = scat.gen_config(rng, kind)
        cfg["det"] = {"t": "grid", "shape": [[35, 30], [32, 33], [41, 27]][i % 3], "spacing": [0.11, 0.13]}
        if cfg["theory"]["t"] == "Lens":
            cfg["theory"]["nth"], cfg["theory"]["nphi"] = 10, 16      # coarse quadrature: the same on every side of the comparison
        out.append({"id": "pos-big-%d" % i, "kind": "pos", "ckind": kind, "cfg": cfg, "seed": [seed, "posbig", i], "cost": 30})
    # explicit points at different heights: the value at a point does not depend on which other points are listed with it
    for i in range(30 if tier == "quick" else 600):
        kind = ["mie_sphere", "lens_mie", "multisphere", "mie_layered", "lens_mie", "tmatrix_spheroid"][i % 6]
        cfg = scat.gen_config(rng, kind)
        if cfg["theory"]["t"] == "Lens":
            cfg["theory"]["nth"], cfg["theory"]["nphi"] = 12, 20
        npt = int(rng.integers(3, 8))
        cfg["det"] = {"t": "points", "x": [float(v) for v in rng.uniform(-2, 4, npt)], "y": [float(v) for v in rng.uniform(-2, 4, npt)],
                      "z": [float(v) for v in rng.uniform(-1.0, 1.5, npt)]}
        if i % 2 == 0 and "c" in cfg["scat"]:
            # an axial scan: the later points sit on the axis through the particle centre, one above the other (same polar angle, other distance)
            cx, cy = cfg["scat"]["c"][0], cfg["scat"]["c"][1]
            for j in range(npt // 2, npt):
                cfg["det"]["x"][j], cfg["det"]["y"][j] = cx, cy
        out.append({"id": "zpts-%d" % i, "kind": "zpoints", "ckind": kind, "cfg": cfg, "seed": [seed, "zpts", i], "cost": 6})
    ns = 80 if tier == "quick" else 2000
    for i in range(ns):
        shape = [int(rng.integers(1, 14)), int(rng.integers(1, 14))]
        if shape == [1, 1]:
            shape = [1, 4]
        out.append({"id": "subset-%d" % i, "kind": "subset", "shape": shape, "channels": [0, 0, 2][i % 3], "origin": bool(i % 4 == 0),
                    "seed": [seed, "subset", i]})
    nh = 8 if tier == "quick" else 150
    for i in range(nh):
        out.append({"id": "hist-%d" % i, "kind": "history", "seed": [seed, "hist", i], "ncalc": int(rng.integers(6, 13)), "cost": 10})
    return out


def _pick_seed(rng, k):
    """seed catalogue: boundary values of the documented range (0 is a valid seed, not 'no seed'), numpy integer types, random"""
    r = int(rng.integers(0, 6))
    if r == 0:
        return 0
    if r == 1:
        return np.int64(0) if k % 2 else np.int64(int(rng.integers(0, 10 ** 6)))
    if r == 2:
        return 2 ** 32 - 1
    return int(rng.integers(0, 10 ** 6))


# ------------------------------------------------------------------ child

def child_setup(shard):
    from vf import monitors as M
    import holopy.core.metadata as MD
    import holopy.core.process.img_proc as IP

    def post_subset(args, kwargs, res):
        out = []
        names = ["data", "pixels", "return_selection", "seed"]
        am = dict(zip(names, args)); am.update(kwargs)
        data, pixels = am["data"], am.get("pixels")
        if pixels is None:
            if res is not data:
                out.append(("none_returns_input", ""))
            return out
        sel = None
        if am.get("return_selection"):
            res, sel = res
        if "flat" not in res.dims or res.sizes["flat"] != pixels:
            out.append(("size", "%r" % (res.dims,)))
            return out
        if "original_dims" not in res.attrs:
            out.append(("original_dims_missing", ""))
        else:
            od = res.attrs["original_dims"]
            for k in data.dims:
                if k not in od or not np.array_equal(np.asarray(od[k]), data[k].values):
                    out.append(("original_dims_wrong", k))
        for k, v in data.attrs.items():
            if k == "original_dims" and "flat" not in data.dims:
                continue      # (an image's own stale entry is replaced by its axes: checked above)
            if k not in res.attrs or M.digest(res.attrs[k]) != M.digest(v):
                out.append(("attrs", k))
        if res.name != data.name:
            out.append(("name", repr(res.name)))
        # every selected pixel keeps value and coordinates
        xs, ys = np.asarray(res.x.values), np.asarray(res.y.values)
        zs = np.asarray(res.z.values) if "z" in data.dims and "z" in res.coords and np.ndim(res.z.values) == 1 else None
        pos = set()
        for j in range(pixels):
            if "z" in data.dims:
                # (a plain image has one z plane; a stack has several and the pixel's own height says which)
                v = data.sel(x=xs[j], y=ys[j], z=zs[j]) if zs is not None and data.sizes["z"] > 1 else data.isel(z=0).sel(x=xs[j], y=ys[j])
            else:
                v = data.sel(x=xs[j], y=ys[j])
            if not np.array_equal(np.asarray(v.values), np.asarray(res.isel(flat=j).values)):
                out.append(("value", "pixel %d" % j))
                break
            pos.add((float(xs[j]), float(ys[j]), float(zs[j]) if zs is not None else 0.0))
        if len(pos) != pixels:
            out.append(("not_distinct", "%d distinct of %d" % (len(pos), pixels)))
        if sel is not None:
            if len(set(int(s) for s in sel)) != pixels:
                out.append(("selection_not_distinct", ""))
        return out

    M.wrap_in_modules("make_subset_data", MD.make_subset_data, post=post_subset)
    M.wrap_in_modules("subimage", IP.subimage)


def _holo(det, cfg, s, th):
    from holopy.scattering import calc_holo
    o = cfg["optics"]
    return calc_holo(det, s, o["medium_index"], o["illum_wavelen"], o["illum_polarization"], theory=th, scaling=0.9)


@scat.guarded
def run_case(case):
    return globals()["_run_" + case["kind"]](case)


def _run_zpoints(case):
    """points at different heights: listed together (in two orders) or one at a time, the value at a point is the same"""
    cfg = case["cfg"]
    rng = rng_for(*case["seed"])
    s = scat.build_scatterer(cfg["scat"])
    th = scat.build_theory(cfg["theory"])
    d = cfg["det"]
    n = len(d["x"])
    allp = _holo(scat.build_detector(d), cfg, s, th).values
    perm = [int(v) for v in rng.permutation(n)]
    dp = {"t": "points", "x": [d["x"][k] for k in perm], "y": [d["y"][k] for k in perm], "z": [d["z"][k] for k in perm]}
    permuted = _holo(scat.build_detector(dp), cfg, s, th).values
    single = np.array([_holo(scat.build_detector({"t": "points", "x": [d["x"][k]], "y": [d["y"][k]], "z": [d["z"][k]]}), cfg, s, th).values[0] for k in range(n)])
    t = cfg["theory"]["t"]
    resid = {"zpoints_reordered@" + t: relmax(permuted, allp[perm]), "zpoints_single@" + t: relmax(single, allp)}
    flags = {}
    if t == "Multisphere" and "members" in cfg["scat"]:
        # a point the solver cannot evaluate (exactly on the cluster's centroid, k r = 0) is refused wherever it stands in the list;
        # it is not handed back as a silent nan among good values (F140)
        from holopy.scattering.errors import MultisphereFailure
        cen = np.mean([m_["c"] for m_ in cfg["scat"]["members"]], axis=0)
        outcomes = []
        for pos in (0, 1):
            xs_, ys_, zs_ = list(d["x"][:2]), list(d["y"][:2]), list(d["z"][:2])
            xs_.insert(pos, float(cen[0])); ys_.insert(pos, float(cen[1])); zs_.insert(pos, float(cen[2]))
            try:
                v = _holo(scat.build_detector({"t": "points", "x": xs_, "y": ys_, "z": zs_}), cfg, s, th).values
                outcomes.append("finite" if np.all(np.isfinite(v)) else "nan")
            except MultisphereFailure:
                outcomes.append("refused")
        flags["unevaluable_point_same_outcome_in_any_position"] = bool(outcomes[0] == outcomes[1] and "nan" not in outcomes)
    return {"resid": resid, "flags": flags, "hptp": 1.0, "npix": n}


def _run_pos(case):
    import holopy as hp
    from holopy.core.metadata import make_subset_data, update_metadata
    from holopy.core.process import subimage
    from vf.monitors import digest
    rng = rng_for(*case["seed"])
    cfg = case["cfg"]
    s = scat.build_scatterer(cfg["scat"])
    th = scat.build_theory(cfg["theory"])
    det = scat.build_detector(cfg["det"])
    dd = digest(det)
    hg = _holo(det, cfg, s, th)
    G = hg.transpose("x", "y", "z").values[:, :, 0]
    nx, ny = G.shape
    t = cfg["theory"]["t"]
    resid, flags = {}, {}
    flags["result_on_detector_axes_in_detector_order"] = bool(np.array_equal(hg.x.values, det.x.values) and np.array_equal(hg.y.values, det.y.values))
    # points
    hp_ = _holo(scat.build_detector(scat.grid_to_points(cfg["det"])), cfg, s, th)
    resid["points@" + t] = relmax(hp_.values, G.ravel())
    # the dictionary call form of detector_points, one dictionary used for two detectors (another plane first)
    pt = scat.grid_to_points(cfg["det"])
    locs = {"x": np.asarray(pt["x"], dtype=float), "y": np.asarray(pt["y"], dtype=float)}
    hp.detector_points(locs, z=float(pt["z"]) + 1.5)
    d_same = hp.detector_points(locs, z=float(pt["z"])) if pt["z"] else hp.detector_points(locs)
    flags["detector_points_leaves_its_dictionary_alone"] = bool(sorted(locs) == ["x", "y"])
    resid["points_dictform@" + t] = relmax(_holo(d_same, cfg, s, th).values, G.ravel())
    # crop by isel
    if nx >= 2 and ny >= 2:
        a, b = sorted(rng.choice(nx + 1, 2, replace=False)); c, e = sorted(rng.choice(ny + 1, 2, replace=False))
        crop = det.isel(x=slice(a, b), y=slice(c, e))
        hc = _holo(crop, cfg, s, th)
        resid["crop@" + t] = relmax(hc.transpose("x", "y", "z").values[:, :, 0], G[a:b, c:e])
        flags["crop_coords"] = bool(np.array_equal(hc.x.values, det.x.values[a:b]) and np.array_equal(hc.y.values, det.y.values[c:e]))
    # crop by subimage (even size)
    if nx >= 4 and ny >= 4:
        sz = 2 * int(rng.integers(1, min(nx, ny) // 2 + 1))
        cx = int(rng.integers(sz // 2, nx - sz // 2 + 1)); cy = int(rng.integers(sz // 2, ny - sz // 2 + 1))
        sub = subimage(det, (cx, cy), sz)
        hs = _holo(sub, cfg, s, th)
        resid["subimage@" + t] = relmax(hs.transpose("x", "y", "z").values[:, :, 0], G[cx - sz // 2:cx + sz // 2, cy - sz // 2:cy + sz // 2])
    # random pixel subsets of an image on the same grid
    img = update_metadata(det.copy(data=rng.normal(size=det.shape)), noise_sd=0.1)
    di = digest(img)
    tot = nx * ny
    worst = 0.0
    sizes = sorted(set([1, min(2, tot), int(rng.integers(1, tot + 1)), max(1, tot - 1), tot]))
    for isz, npx in enumerate(sizes):
        sd = _pick_seed(rng, isz)
        sub, sel = make_subset_data(img, pixels=npx, return_selection=True, seed=sd)
        hs = _holo(sub, cfg, s, th)
        worst = max(worst, relmax(hs.values, G.ravel()[sel]))
        flags["subset_result_coords@%d" % npx] = bool(np.array_equal(hs.x.values, sub.x.values) and np.array_equal(hs.y.values, sub.y.values))
        sub2 = make_subset_data(img, pixels=npx, seed=sd)
        flags["seed_reproducible@%d" % npx] = bool(np.array_equal(sub2.values, sub.values) and np.array_equal(sub2.x.values, sub.x.values))
        flags["subset_data@%d" % npx] = bool(np.array_equal(sub.values, img.transpose("x", "y", "z").values.ravel()[sel]))
    resid["subset@" + t] = fnum(worst)
    flags["detector_untouched"] = bool(digest(det) == dd)
    flags["image_untouched"] = bool(digest(img) == di)
    return {"resid": resid, "flags": flags, "hptp": fnum(float(np.ptp(G))), "npix": tot}


def _run_subset(case):
    import xarray as xr
    from holopy.core.metadata import make_subset_data, data_grid, update_metadata
    from vf.monitors import digest
    rng = rng_for(*case["seed"])
    nx, ny = case["shape"]
    nch = case["channels"]
    shp = (nx, ny, nch) if nch else (nx, ny)
    im = data_grid(rng.normal(size=shp), spacing=(float(rng.uniform(0.05, 0.3)), float(rng.uniform(0.05, 0.3))), medium_index=1.33,
                   illum_wavelen={"red": 0.66, "green": 0.52} if nch else 0.66, illum_polarization=(1, 0), noise_sd=0.05, name="im",
                   extra_dims={"illumination": ["red", "green"]} if nch else None)
    if case["origin"]:
        im = im.assign_coords(x=im.x.values + 2.5, y=im.y.values - 0.75)
    d0 = digest(im)
    tot = nx * ny
    flags = {}
    seen_sel = []
    for isz, npx in enumerate(sorted(set([1, tot, int(rng.integers(1, tot + 1)), int(rng.integers(1, tot + 1))]))):
        sd = _pick_seed(rng, isz)
        sub, sel = make_subset_data(im, pixels=npx, return_selection=True, seed=sd)
        sub2, sel2 = make_subset_data(im, pixels=npx, return_selection=True, seed=sd)
        flags["reproducible@%d" % npx] = bool(np.array_equal(sel, sel2) and digest(sub) == digest(sub2))
        flags["distinct@%d" % npx] = bool(len(set(int(v) for v in sel)) == npx and min(sel) >= 0 and max(sel) < tot)
        # selection indexes the (x, y, z)-stacked pixels
        X, Y = np.meshgrid(im.x.values, im.y.values, indexing="ij")
        flags["coords_by_selection@%d" % npx] = bool(np.array_equal(sub.x.values, X.ravel()[sel]) and np.array_equal(sub.y.values, Y.ravel()[sel]))
        if npx == tot:
            flags["all_pixels_is_permutation"] = bool(sorted(int(v) for v in sel) == list(range(tot)))
        # without a seed: draws from numpy's global stream (different calls differ unless the stream is reset)
        np.random.seed((int(sd) + 1) % 2 ** 32)
        a = make_subset_data(im, pixels=npx, return_selection=True)[1]
        np.random.seed((int(sd) + 1) % 2 ** 32)
        b = make_subset_data(im, pixels=npx, return_selection=True)[1]
        flags["global_stream_reproducible@%d" % npx] = bool(np.array_equal(a, b))
    flags["pixels_none_returns_data"] = bool(make_subset_data(im) is im)
    flags["input_untouched"] = bool(digest(im) == d0 and "original_dims" not in im.attrs)
    # an image that carries an 'original_dims' entry from an earlier life (the best-fit image of a subset fit does, and crops keep
    # attributes): a subset of IT remembers ITS axes
    stale = im.isel(x=slice(0, max(1, nx // 2)), y=slice(0, max(1, ny - 1)))
    stale.attrs = dict(im.attrs, original_dims={k: im[k].values for k in im.dims})
    sub_s = make_subset_data(stale, pixels=max(1, stale.sizes["x"] * stale.sizes["y"] // 2), seed=3)
    od = sub_s.attrs.get("original_dims", {})
    flags["subset_of_image_with_old_original_dims_remembers_its_own_axes"] = bool(all(k in od and np.array_equal(np.asarray(od[k]), stale[k].values) for k in stale.dims))
    # an image with several z planes (a stack of slices): a subset is drawn from ALL its pixels, and all of them can be asked for (F129)
    if not nch:
        nz = 2 + int(case["seed"][-1]) % 3
        vol = data_grid(rng.normal(size=(nz, nx, ny)), spacing=0.1, z=[0.5 * j for j in range(nz)], medium_index=1.33, illum_wavelen=0.66, illum_polarization=(1, 0))
        totv = nx * ny * nz
        try:
            allv, selv = make_subset_data(vol, pixels=totv, return_selection=True, seed=5)
            flags["stack_all_pixels_is_permutation"] = bool(sorted(int(v) for v in selv) == list(range(totv)) and
                                                            np.array_equal(np.sort(allv.values), np.sort(vol.values.ravel())))
        except Exception:
            flags["stack_all_pixels_is_permutation"] = False
        seen = set()
        for sd in range(40):
            _, selp = make_subset_data(vol, pixels=max(1, totv // 3), return_selection=True, seed=sd)
            seen |= set(int(v) for v in selp)
        flags["stack_subsets_reach_every_plane"] = bool(max(seen) >= nx * ny) if totv > nx * ny else True
    return {"resid": {}, "flags": flags, "hptp": 1.0, "npix": tot}


def _run_history(case):
    """several calculations sharing one detector object: detector unchanged, results as with fresh detectors"""
    from holopy.core.metadata import update_metadata, make_subset_data
    from vf.monitors import digest
    rng = rng_for(*case["seed"])
    det_spec = scat.gen_grid(rng, maxn=6, allow_1=False)
    shared = scat.build_detector(det_spec, optics={"medium_index": 1.2, "illum_wavelen": 0.5, "illum_polarization": [1, 0], "noise_sd": 0.1})
    d0 = digest(shared)
    worst = 0.0
    n = 0
    later = []
    for j in range(case["ncalc"]):
        kind = scat.ALL_KINDS[int(rng.integers(0, len(scat.ALL_KINDS)))]
        cfg = scat.gen_config(rng, kind)
        cfg["det"] = det_spec
        try:
            s = scat.build_scatterer(cfg["scat"]); th = scat.build_theory(cfg["theory"])
            target = shared if j % 3 else make_subset_data(shared, pixels=max(1, shared.size // 2), seed=j)
            fresh = scat.build_detector(det_spec, optics={"medium_index": 1.2, "illum_wavelen": 0.5, "illum_polarization": [1, 0], "noise_sd": 0.1})
            fresh_t = fresh if j % 3 else make_subset_data(fresh, pixels=max(1, fresh.size // 2), seed=j)
            a = _holo(target, cfg, s, th)
            b = _holo(fresh_t, cfg, s, th)
            worst = max(worst, relmax(a.values, b.values))
            n += 1
            # the same particle again on the shared detector with ONE optical input overridden in the call (a series at several
            # wavelengths); compared further down, after other calculations, with the same locations given as explicit points
            import copy
            cfg2 = copy.deepcopy(cfg)
            which = ["illum_wavelen", "medium_index"][j % 2]
            cfg2["optics"][which] = cfg2["optics"][which] * [0.83, 1.04][j % 2]
            if shared is target:
                later.append((cfg2, _holo(shared, cfg2, s, th)))
        except Exception as e:
            from holopy.scattering.errors import MultisphereFailure, TmatrixFailure
            if not isinstance(e, (MultisphereFailure, TmatrixFailure)):
                raise
    worst_later = 0.0
    for cfg2, grid_val in reversed(later):
        try:
            s2 = scat.build_scatterer(cfg2["scat"]); th2 = scat.build_theory(cfg2["theory"])
            pts = scat.build_detector(scat.grid_to_points(det_spec))
            pv = _holo(pts, cfg2, s2, th2)
            worst_later = max(worst_later, relmax(grid_val.transpose("x", "y", "z").values.ravel(), pv.values.ravel()))
        except Exception as e:
            from holopy.scattering.errors import MultisphereFailure, TmatrixFailure
            if not isinstance(e, (MultisphereFailure, TmatrixFailure)):
                raise
    return {"resid": {"shared_vs_fresh@any": fnum(worst), "series_on_shared_detector_vs_points@any": fnum(worst_later)},
            "flags": {"shared_detector_untouched": bool(digest(shared) == d0)}, "hptp": 1.0, "npix": n}


# ------------------------------------------------------------------ oracle

def judge(case, obs):
    out = []
    for k, v in obs["resid"].items():
        base, t = k.split("@")
        tol = 0.0 if base == "shared_vs_fresh" else (1e-9 if t in ("MieLens", "AberratedMieLens") or base == "series_on_shared_detector_vs_points" else 1e-12)
        if not v <= tol:
            out.append({"mech": "%s.%s" % (base, t), "detail": "%s=%.3e > %.0e; kind=%s det=%s" % (k, v, tol, case.get("ckind"), case.get("cfg", {}).get("det"))})
    for k, v in obs["flags"].items():
        if not v:
            out.append({"mech": "%s.%s" % (case["kind"], k.split("@")[0]), "detail": "flag %s false; %s" % (k, {x: case[x] for x in case if x in ("shape", "channels", "origin", "ckind")})})
    return out


def nontrivial(case, obs):
    return obs.get("hptp", 0) > 0
