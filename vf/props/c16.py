"""C16 Images keep values, coordinates and metadata through I/O and metadata edits."""
import itertools
import math
import os
import shutil
import tempfile

import numpy as np

from ..util import rng_for, fnum, loguniform, relmax

NEEDS_FORTRAN = False
LEVEL_TEXT = ("Runtime monitoring of the real save / load / save_image / load_image / load_average / update_metadata on "
              "generated images (shapes incl. 1xN, dtypes, anisotropic spacing, shifted origin, 1-3 channels with dict- or "
              "array-valued metadata, 1-3 save/load cycles, every file order for averaging up to 4 files, every subset of "
              "metadata fields); files are decoded back and compared field by field with the original by an oracle that "
              "selects per-channel values by label, and a purity monitor checks that no call modified its input.")
LEVEL_NOTE = "Trusted: h5py/h5netcdf/Pillow as file codecs, numpy. Temporary files live in a per-case scratch directory removed after the case."
TECHNIQUE = "runtime monitoring: generated images through the real I/O functions, round-trip/decoded-file oracle + argument-purity monitor"
RULE = ("h5: random images x dtype {f8,f4,i8,i4,u2,c16} x layout {grey, 2ch, 3ch} x metadata form {scalar, dict, DataArray "
        "in permuted label order} x cycles 1..3 + a load-process-save cycle; image names incl. non-ASCII and yaml-hostile texts; tiff: depth 8/16/float, scaling auto/None, via hp.save and save_image; "
        "raster: PIL-written grey/RGB files read with load_image over channel selections; avg: 2-5 files, all orders "
        "(<=4) or 12 sampled; meta: all 16 subsets of the four fields. non-trivial = image not constant; distinct by rounded case JSON")
ASSUMPTIONS = ["TIFF round trips are claimed for scaling='auto' (integer depths) and for float files; scaling=None with an integer depth writes display units by request and is not a round trip",
               "colour TIFFs only at 8 bit (Pillow cannot write 16-bit or float RGB)",
               "an image whose name is None is saved under the file's base name (documented behaviour), so name equality is checked for named images only",
               "TIFF quantisation bound: (max-min)/(2^bits-1) with bits=8 or 15 (HoloPy writes 16-bit data as int15)"]
MIN_NONTRIVIAL = 20
REQUIRED_COUNTERS = ["save", "load", "update_metadata"]

DTYPES = ["float64", "float32", "int64", "int32", "uint16", "complex128"]


def cases(tier, seed):
    out = []
    rng = rng_for(seed, "c16")
    n = 120 if tier == "quick" else 2000
    for i in range(n):
        shape = [int(rng.integers(1, 12)), int(rng.integers(1, 12))]
        if i % 7 == 0:
            shape[0] = 1
        if shape == [1, 1]:
            shape = [1, 3]
        out.append({"id": "h5-%d" % i, "kind": "h5", "shape": shape, "dtype": DTYPES[i % len(DTYPES)],
                    "channels": [0, 2, 3, 1][(i // 2) % 4], "metaform": ["scalar", "dict", "array"][(i // 3) % 3],      # (1: a one-entry illumination axis, F102)
                    "cycles": 1 + i % 3, "named": bool(i % 5), "origin": bool(i % 4 == 1), "seed": [seed, "h5", i],
                    "labels": [["red", "green", "blue"], ["uv", "ir", "x-ray"], [405, 532, 658], ["blue", "red", "green"]][(i // 5) % 4]})
    for i in range(n):
        shape = [int(rng.integers(2, 14)), int(rng.integers(2, 14))]
        depth = [8, 16, "float", 8][i % 4]
        nch = [0, 0, 3, 2][(i // 2) % 4] if depth == 8 else 0     # PIL cannot write 16-bit/float colour files
        c = {"id": "tiff-%d" % i, "kind": "tiff", "shape": shape, "depth": depth,
             "via": ["hp.save", "save_image"][(i // 4) % 2], "scaling": None if depth == "float" else "auto",
             "channels": nch, "seed": [seed, "tiff", i]}
        if nch == 2:      # any two of the three colour channels (the third is a filler in the file)
            c["labels"] = [["red", "green"], ["green", "blue"], ["red", "blue"]][(i // 8) % 3]
        out.append(c)
    # TIFF catalogue: channel labels that are not colour names (F105, F106), a one-entry illumination axis (F107), a constant
    # image (F104), a boolean mask (F108), a single row / column of pixels (known finding: refused)
    cat = [dict(channels=3, labels=["uv", "ir", "x-ray"]), dict(channels=3, labels=["R", "G", "B"]), dict(channels=2, labels=["a", "b"]),
           dict(channels=1, labels=["green"]), dict(channels=1, labels=["ir"]), dict(channels=0, constant=3.0), dict(channels=0, constant=0.0),
           dict(channels=0, boolean=True), dict(channels=0, shape=[1, 7]), dict(channels=0, shape=[6, 1]), dict(channels=3, labels=["blue", "green", "red"]),
           # labels that merely START like a colour name are labels, not colours: none is lost, none collides
           dict(channels=3, labels=["blue", "green", "bright"]), dict(channels=2, labels=["red", "ruby"]), dict(channels=3, labels=["rot", "gruen", "blau"]),
           dict(channels=2, labels=["background", "reference"]), dict(channels=0, zstack=3), dict(channels=0, zstack=2)]
    for j, extra in enumerate(cat):
        c = {"id": "tiff-cat-%d" % j, "kind": "tiff", "shape": [5 + j % 3, 4 + j % 4], "depth": 8, "via": ["hp.save", "save_image"][j % 2], "scaling": "auto",
             "seed": [seed, "tiffcat", j]}
        c.update(extra)
        out.append(c)
    for i in range(n):
        shape = [int(rng.integers(1, 10)), int(rng.integers(2, 10))]
        out.append({"id": "raster-%d" % i, "kind": "raster", "shape": shape, "rgb": bool(i % 2), "fmt": ["png", "tif", "bmp"][i % 3],
                    "channel": [None, 0, 1, 2, [0, 2], [2, 1], "all", [1]][(i // 2) % 8], "seed": [seed, "raster", i]})
    for i in range(max(6, n // 2)):
        out.append({"id": "avg-%d" % i, "kind": "avg", "nfiles": 2 + i % 4, "shape": [int(rng.integers(2, 9)), int(rng.integers(2, 9))],
                    "ref": ["none", "full", "crop"][i % 3], "rgb": bool((i // 3) % 2), "seed": [seed, "avg", i], "cost": 4})
    for i in range(max(4, n // 4)):
        out.append({"id": "meta-%d" % i, "kind": "meta", "channels": [0, 2, 3][i % 3], "seed": [seed, "meta", i]})
    return out


# ------------------------------------------------------------------ child

def child_setup(shard):
    from vf import monitors as M
    import holopy.core.io.io as IO
    import holopy.core.metadata as MD
    M.wrap_in_modules("save", IO.save)
    M.wrap_in_modules("load", IO.load)
    M.wrap_in_modules("save_image", IO.save_image)
    M.wrap_in_modules("load_image", IO.load_image)
    M.wrap_in_modules("load_average", IO.load_average)
    M.wrap_in_modules("update_metadata", MD.update_metadata)


LABELS = ["red", "green", "blue"]


def _meta_for(case, rng, nch):
    """returns kwargs for update_metadata and a plain description {field: {label: value}}"""
    import xarray as xr
    zero_noise = rng.random() < 0.25        # a noiseless (simulated) image has noise_sd = 0.0: falsy but valid
    if nch == 0:
        mi = float(rng.uniform(1.0, 1.6)); wl = float(rng.uniform(0.4, 0.8)); ns = 0.0 if zero_noise else float(rng.uniform(0.01, 0.2))
        pol = [float(v) for v in rng.normal(size=2)]
        return dict(medium_index=mi, illum_wavelen=wl, illum_polarization=pol, noise_sd=ns), None
    labs = case.get("labels", LABELS)[:nch]
    wl = {l: float(rng.uniform(0.4, 0.8)) for l in labs}
    pol = {l: [float(v) for v in rng.normal(size=2)] for l in labs}
    ns = {l: (0.0 if zero_noise else float(rng.uniform(0.01, 0.2))) for l in labs}
    mi = float(rng.uniform(1.0, 1.6))
    form = case.get("metaform", "dict")
    if form == "scalar":
        return dict(medium_index=mi, illum_wavelen=wl[labs[0]], illum_polarization=pol[labs[0]], noise_sd=ns[labs[0]]), \
            {"illum_wavelen": {l: wl[labs[0]] for l in labs}, "noise_sd": {l: ns[labs[0]] for l in labs}, "illum_polarization": {l: pol[labs[0]] for l in labs}}
    if form == "dict":
        def shuffled(d):   # a dict's meaning must not depend on its insertion order
            ks = [labs[i] for i in rng.permutation(nch)]
            return {k: d[k] for k in ks}
        return dict(medium_index=mi, illum_wavelen=shuffled(wl), illum_polarization=shuffled(pol), noise_sd=shuffled(ns)), {"illum_wavelen": wl, "noise_sd": ns, "illum_polarization": pol}
    perm = list(rng.permutation(nch))
    pl = [labs[k] for k in perm]
    from holopy.core.metadata import to_vector
    wla = xr.DataArray([wl[l] for l in pl], dims="illumination", coords={"illumination": pl})
    nsa = xr.DataArray([ns[l] for l in pl], dims="illumination", coords={"illumination": pl})
    pola = xr.concat([to_vector(pol[l]) for l in pl], xr.DataArray(pl, dims="illumination", name="illumination"))
    if rng.random() < 0.5:
        pola = pola.transpose("vector", "illumination")      # the other dimension order means the same thing
    return dict(medium_index=mi, illum_wavelen=wla, illum_polarization=pola, noise_sd=nsa), {"illum_wavelen": wl, "noise_sd": ns, "illum_polarization": pol}


_NAMES = ["K\u00fcgelchen", "5\u00b5m_bead", "\u7c92\u5b50 3", "bead no. 7", "yes", "null", "1e3", "~", "a: b", "it's", 'say "hi"', "#3", "- x", "caf\u00e9 \u2603",
          " padded ", "100%", "{x}", "[1]", "True", "2024-01-01"]


def _make_image(case, rng, dtype="float64", positive=False):
    from holopy.core.metadata import data_grid, update_metadata
    nx, ny = case["shape"]
    nch = case.get("channels", 0)
    shp = (nx, ny, nch) if nch else (nx, ny)
    if dtype.startswith("complex"):
        a = rng.normal(size=shp) + 1j * rng.normal(size=shp)
    elif dtype.startswith("float"):
        a = (rng.uniform(0.1, 1.0, size=shp) if positive else rng.normal(size=shp) * 10 ** rng.uniform(-3, 3)).astype(dtype)
    elif dtype == "uint16":
        a = rng.integers(0, 60000, size=shp).astype(dtype)
    else:
        a = rng.integers(-1000, 1000, size=shp).astype(dtype)
    sp = (float(rng.uniform(0.05, 0.5)), float(rng.uniform(0.05, 0.5)))
    nm = "img_%d" % int(rng.integers(0, 99))
    if rng.random() < 0.4:
        # names people give their images: accents, units, spaces, text a yaml reader takes for something else
        nm = _NAMES[int(rng.integers(0, len(_NAMES)))]
    im = data_grid(a, spacing=sp, name=nm if case.get("named", True) else None,
                   extra_dims={"illumination": case.get("labels", LABELS)[:nch]} if nch else None)
    if not case.get("named", True):
        im.name = None
    kw, desc = _meta_for(case, rng, nch)
    im = update_metadata(im, **kw)
    if case.get("origin"):
        im = im.assign_coords(x=im.x.values + 3.5, y=im.y.values - 1.25)
    return im, kw, desc, sp


def _attr_by_label(attr, label):
    import xarray as xr
    if isinstance(attr, xr.DataArray) and "illumination" in attr.dims:
        return np.asarray(attr.sel(illumination=label).values)
    return np.asarray(getattr(attr, "values", attr))


def _compare_meta(a, b, nch, LABELS=LABELS):
    """a original, b reloaded; returns list of differing fields"""
    bad = []
    for k in ("medium_index", "illum_wavelen", "illum_polarization", "noise_sd"):
        va, vb = a.attrs.get(k), b.attrs.get(k)
        if va is None or vb is None:
            if not (va is None and vb is None):
                bad.append(k)
            continue
        labs = LABELS[:nch] if nch else [None]
        for l in labs:
            x = _attr_by_label(va, l) if l else np.asarray(getattr(va, "values", va))
            y = _attr_by_label(vb, l) if l else np.asarray(getattr(vb, "values", vb))
            if x.shape != y.shape or not np.array_equal(x, y):
                bad.append("%s[%s]" % (k, l))
    return bad


def run_case(case):
    td = tempfile.mkdtemp(prefix="vf_c16_")
    try:
        return globals()["_run_" + case["kind"]](case, td)
    finally:
        shutil.rmtree(td, ignore_errors=True)


def _run_h5(case, td):
    import holopy as hp
    from vf.monitors import digest
    rng = rng_for(*case["seed"])
    im, kw, desc, sp = _make_image(case, rng, case["dtype"])
    flags = {}
    before = digest(im)
    cur = im
    for c in range(case["cycles"]):
        p = os.path.join(td, "f%d" % c + (".h5" if c % 2 == 0 else ""))   # extension is optional
        hp.save(p, cur)
        cur = hp.load(p if c % 2 == 0 else p + ".h5")
    b = cur
    flags["original_untouched"] = bool(digest(im) == before)
    flags["values_bitwise"] = bool(b.shape == im.shape and b.dims == im.dims and np.array_equal(b.values, im.values) and
                                   (im.dtype.kind != "f" or np.array_equal(np.signbit(b.values), np.signbit(im.values))))
    flags["dtype"] = bool(b.dtype == im.dtype)
    flags["dims"] = bool(b.dims == im.dims)
    flags["coords"] = bool(all(c in b.coords and np.array_equal(np.asarray(b[c].values), np.asarray(im[c].values)) for c in im.dims))
    if case["named"]:
        flags["name"] = bool(b.name == im.name)
    else:
        flags["name_none_or_filestem"] = bool(b.name in (None, "f0"))
    bad = _compare_meta(im, b, case["channels"], case.get("labels", LABELS))
    flags["metadata"] = not bad
    # the usual workflow: load, process (the values become floats), save again, load: the file holds the processed values
    proc = b.copy(data=np.asarray(b.values, dtype="float64") * 0.5 + 0.125) if b.dtype.kind != "c" else b.copy(data=b.values * 0.5 + 0.125)
    p2 = os.path.join(td, "processed.h5")
    hp.save(p2, proc)
    b2 = hp.load(p2)
    flags["processed_values_bitwise"] = bool(b2.shape == proc.shape and b2.dtype == proc.dtype and np.array_equal(b2.values, proc.values))
    return {"resid": {}, "flags": flags, "bad_fields": bad, "const": bool(im.size > 1 and np.ptp(np.abs(im.values)) == 0) or im.size <= 1}


def _run_tiff(case, td):
    import holopy as hp
    from holopy.core.io.io import save_image
    from vf.monitors import digest
    rng = rng_for(*case["seed"])
    case = dict(case, named=True)
    im, kw, desc, sp = _make_image(case, rng, "float64", positive=True)
    if case.get("zstack"):
        # several z planes do not fit into one TIFF image: refused clearly, or all of them come back -- never the first plane alone
        import xarray as xr
        from holopy.core.errors import BadImage
        vol = xr.concat([im.assign_coords(z=[float(k_)]) * (1.0 + 0.7 * k_) + 0.4 * k_ for k_ in range(case["zstack"])], dim="z")
        vol.attrs = dict(im.attrs); vol.name = im.name
        # the plural entry point writes one file per plane: each comes back as that plane (values to the quantization of ITS range,
        # spacing and metadata kept)
        from holopy.core.io.io import save_images
        files = [os.path.join(td, "plane%d.tif" % k_) for k_ in range(case["zstack"])]
        save_images(files, vol)
        worst_q, planes_ok = 0.0, True
        for k_, fn in enumerate(files):
            back_k = hp.load(fn)
            want_k = vol.isel(z=k_)
            q_k = float(want_k.max() - want_k.min()) / 255.0
            got_k = np.asarray(back_k.values, dtype=float).squeeze()
            planes_ok &= bool(got_k.shape == want_k.shape and np.allclose(back_k.x.values, want_k.x.values, rtol=1e-12, atol=1e-12) and back_k.attrs.get("medium_index") == im.attrs.get("medium_index"))
            if got_k.shape == want_k.shape:
                worst_q = max(worst_q, float(np.abs(got_k - want_k.values).max()) / q_k)
        p = os.path.join(td, "vol.tif")
        try:
            (hp.save if case["via"] == "hp.save" else save_image)(p, vol)
        except BadImage:
            return {"resid": {"tiff_quanta": fnum(worst_q)}, "flags": {"z_stack_refused_or_kept": True, "save_images_planes": planes_ok}, "bad_fields": [], "const": False}
        back = hp.load(p)
        return {"resid": {"tiff_quanta": fnum(worst_q)}, "flags": {"z_stack_refused_or_kept": bool(back.sizes.get("z", 1) == case["zstack"]), "save_images_planes": planes_ok}, "bad_fields": [], "const": False}
    # value ranges: ordinary, very faint, low contrast on a large pedestal, large, straddling zero
    off, scl = [(0.0, 1.0), (0.0, 3e-9), (1.0, 1e-6), (4.0e4, 2.5e4), (-5.0, 10.0), (0.0, 1.0)][int(case["id"].split("-")[-1]) % 6]
    if scl != 1.0 or off != 0.0:
        im = im.copy(data=off + scl * (im.values - 0.1) / 0.9)
    if case.get("constant") is not None:
        im = im.copy(data=np.full(im.shape, float(case["constant"])))
    if case.get("boolean"):
        im = im.copy(data=im.values > float(np.median(im.values)))
    before = digest(im)
    p = os.path.join(td, "t.tif")
    depth, scaling = case["depth"], case["scaling"]
    try:
        if case["via"] == "hp.save":
            hp.save(p, im)
            depth, scaling = 8, "auto"
        else:
            save_image(p, im, scaling=scaling, depth=depth)
    except ValueError as e:
        if min(case["shape"]) == 1 and "single row or column" in str(e):
            # a single row or column of pixels has no spacing to store: refused with a clear message (recorded as a known finding)
            return {"resid": {}, "flags": {"single_row_or_column_round_trips": False}, "bad_fields": ["refused: %s" % e], "const": False}
        raise
    b = hp.load(p)
    flags, resid = {}, {}
    flags["original_untouched"] = bool(digest(im) == before)
    flags["dims"] = bool(set(b.dims) == set(im.dims) and all(b.sizes[d] == im.sizes[d] for d in im.dims))
    if flags["dims"]:
        bb = b.transpose(*im.dims)
        flags["channel_labels"] = bool(not case["channels"] or sorted(map(str, b.illumination.values)) == sorted(map(str, im.illumination.values)))
        if case["channels"] and flags["channel_labels"]:
            bb = bb.sel(illumination=im.illumination.values)
        rngv = float(np.asarray(im.values, dtype=float).max() - np.asarray(im.values, dtype=float).min())
        bits = {8: 8, 16: 15}.get(depth)
        if depth == "float":
            q = 1e-6 * max(abs(float(im.values.max())), 1e-300)   # float32 tiff
        elif scaling is None:
            q = 1.0 / (2 ** bits - 1)      # values in [0,1] are mapped to the full integer range
        else:
            q = rngv / (2 ** bits - 1)
        if rngv == 0 or case.get("boolean"):
            # nothing to quantize: a constant image (or a two-level mask) comes back exactly
            resid["tiff_quanta"] = 0.0 if np.array_equal(np.asarray(bb.values, dtype=float), np.asarray(im.values, dtype=float)) else float("inf")
        else:
            resid["tiff_quanta"] = fnum(float(np.abs(bb.values - im.values).max()) / q)
        flags["spacing_x"] = bool(np.allclose(bb.x.values, im.x.values, rtol=1e-12, atol=1e-12))
        flags["spacing_y"] = bool(np.allclose(bb.y.values, im.y.values, rtol=1e-12, atol=1e-12))
        bad = _compare_meta(im, bb, case["channels"], case.get("labels", LABELS)) if flags["channel_labels"] else ["channel labels %r vs %r" % (list(b.illumination.values), list(im.illumination.values))]
        flags["metadata"] = not bad
        flags["name"] = bool(b.name == im.name)
    else:
        bad = ["dims %r vs %r" % (b.dims, im.dims)]
    return {"resid": resid, "flags": flags, "bad_fields": bad, "const": False}


def _run_raster(case, td):
    from PIL import Image
    from holopy.core.io.io import load_image
    from holopy.core.errors import BadImage
    rng = rng_for(*case["seed"])
    nx, ny = case["shape"]
    rgb = case["rgb"]
    a = rng.integers(0, 256, size=(nx, ny, 3) if rgb else (nx, ny)).astype("uint8")
    p = os.path.join(td, "r." + case["fmt"])
    Image.fromarray(a).save(p)
    decoded = np.asarray(Image.open(p)).astype(float)
    sx, sy = float(rng.uniform(0.05, 0.5)), float(rng.uniform(0.05, 0.5))
    ch = case["channel"]
    flags = {}
    if rgb and ch is None:
        try:
            load_image(p, spacing=(sx, sy))
            flags["colour_without_channel_refused"] = False
        except BadImage:
            flags["colour_without_channel_refused"] = True
        return {"resid": {}, "flags": flags, "const": False}
    im = load_image(p, spacing=(sx, sy), channel=ch, medium_index=1.33, illum_wavelen=0.66, illum_polarization=(1, 0), noise_sd=0.1, name="rr")
    flags["x_coords"] = bool(np.allclose(im.x.values, np.arange(nx) * sx, rtol=1e-14, atol=0))
    flags["y_coords"] = bool(np.allclose(im.y.values, np.arange(ny) * sy, rtol=1e-14, atol=0))
    flags["name"] = bool(im.name == "rr")
    flags["optics"] = bool(im.attrs["medium_index"] == 1.33 and im.attrs["illum_wavelen"] == 0.66 and im.attrs["noise_sd"] == 0.1
                           and np.allclose(np.asarray(im.attrs["illum_polarization"].values), [1, 0, 0]))
    if not rgb:
        flags["values"] = bool(np.array_equal(im.isel(z=0).transpose("x", "y").values, decoded))
    else:
        chs = list(range(3)) if ch == "all" else (list(ch) if isinstance(ch, list) else [ch])
        if len(chs) == 1:
            flags["values"] = bool("illumination" not in im.dims and np.array_equal(im.isel(z=0).transpose("x", "y").values, decoded[:, :, chs[0]]))
        else:
            ok = "illumination" in im.dims and list(im.illumination.values) == [LABELS[c] for c in chs]
            if ok:
                for c in chs:
                    ok &= bool(np.array_equal(im.sel(illumination=LABELS[c]).isel(z=0).transpose("x", "y").values, decoded[:, :, c]))
            flags["values"] = bool(ok)
    # the channels may be listed as a tuple or an integer array as well as a list
    if rgb and isinstance(ch, list):
        for form_name, form in (("tuple", tuple(ch)), ("array", np.array(ch))):
            try:
                imf = load_image(p, spacing=(sx, sy), channel=form)
                flags["channel_given_as_%s" % form_name] = bool(imf.dims == im.dims and np.array_equal(imf.values, im.values))
            except Exception:
                flags["channel_given_as_%s" % form_name] = False
    # scalar spacing = square pixels
    im2 = load_image(p, spacing=sx, channel=ch if rgb else None)
    flags["scalar_spacing"] = bool(np.allclose(im2.x.values, np.arange(nx) * sx) and np.allclose(im2.y.values, np.arange(ny) * sx))
    return {"resid": {}, "flags": flags, "const": bool(np.ptp(a) == 0)}


def _run_avg(case, td):
    from holopy.core.io import load_average
    from holopy.core.io.io import save_image, load_image
    from holopy.core.metadata import data_grid, update_metadata
    from PIL import Image
    from vf.monitors import digest
    rng = rng_for(*case["seed"])
    nx, ny = case["shape"]
    n = case["nfiles"]
    paths, arrs = [], []
    for i in range(n):
        if case["rgb"]:
            a = rng.integers(20, 256, size=(nx, ny, 3)).astype("uint8")
            p = os.path.join(td, "a%d.png" % i)
            Image.fromarray(a).save(p)
            arrs.append(np.asarray(Image.open(p)).astype(float))
        else:
            a = rng.uniform(0.2, 1.0, size=(nx, ny)).astype("float32")
            p = os.path.join(td, "a%d.tif" % i)
            Image.fromarray(a).save(p)
            arrs.append(np.asarray(Image.open(p)).astype(float))
        paths.append(p)
    A = np.array(arrs)
    sp = (float(rng.uniform(0.05, 0.3)), float(rng.uniform(0.05, 0.3)))
    kw = {}
    ref = None
    chan = [0, 1, 2] if case["rgb"] else None
    if case["ref"] != "none":
        shape = (nx, ny, 3) if case["rgb"] else (nx, ny)
        ref = data_grid(np.zeros(shape), spacing=sp, medium_index=1.41, illum_wavelen=0.5, illum_polarization=(0, 1), noise_sd=0.3, name="refim",
                        extra_dims={"illumination": LABELS} if case["rgb"] else None)
        if case["ref"] == "crop" and nx > 2 and ny > 2:
            ref = ref.isel(x=slice(1, None), y=slice(0, ny - 1))
        kw["refimg"] = ref
        refd = digest(ref)
    else:
        kw["spacing"] = sp
        kw["channel"] = chan
    orders = list(itertools.permutations(range(n))) if n <= 4 else [list(rng.permutation(n)) for _ in range(12)]
    first = None
    worst_order = worst_mean = worst_noise = 0.0
    flags = {}
    for o in orders:
        m = load_average([paths[k] for k in o], **kw)
        mv = m.isel(z=0).transpose(*(("x", "y", "illumination") if case["rgb"] else ("x", "y"))).values
        if first is None:
            first = m
            exp_mean = A.mean(0)
            exp_std = A.std(0)
            if ref is not None and case["ref"] == "crop" and nx > 2 and ny > 2:
                exp_mean = exp_mean[1:, :ny - 1]; exp_std = exp_std[1:, :ny - 1]
            worst_mean = float(np.abs(mv - exp_mean).max() / np.abs(exp_mean).max())
            if case["rgb"]:
                en = (exp_std / exp_mean).mean(axis=(0, 1))
                gn = np.array([float(m.noise_sd.sel(illumination=l)) for l in LABELS])
            else:
                en = np.array([(exp_std / exp_mean).mean()])
                gn = np.array([float(np.asarray(getattr(m.noise_sd, "values", m.noise_sd)).ravel()[0])])
            worst_noise = float(np.abs(gn - en).max() / np.abs(en).max())
            flags["x_coords"] = bool(np.allclose(m.x.values, (ref.x.values if ref is not None else np.arange(nx) * sp[0]), rtol=1e-13))
            flags["y_coords"] = bool(np.allclose(m.y.values, (ref.y.values if ref is not None else np.arange(ny) * sp[1]), rtol=1e-13))
            if ref is not None:
                flags["ref_metadata_copied"] = bool(m.attrs["medium_index"] == 1.41 and m.attrs["illum_wavelen"] == 0.5 and m.name == "refim")
        else:
            worst_order = max(worst_order, float(np.abs(m.values - first.values).max() / np.abs(first.values).max()),
                              float(np.abs(np.asarray(getattr(m.noise_sd, "values", m.noise_sd), dtype=float) - np.asarray(getattr(first.noise_sd, "values", first.noise_sd), dtype=float)).max()))
    if ref is not None:
        flags["refimg_untouched"] = bool(digest(ref) == refd)
    # explicit optics override the reference image's
    if ref is not None:
        m2 = load_average(paths, refimg=ref, medium_index=1.2, noise_sd=0.01)
        flags["explicit_overrides_ref"] = bool(m2.attrs["medium_index"] == 1.2 and m2.attrs["noise_sd"] == 0.01 and m2.attrs["illum_wavelen"] == 0.5)
    # the averaged image (its noise_sd is a computed array) goes through the HDF5 format like any other image
    import holopy as hp
    pav = os.path.join(td, "averaged.h5")
    try:
        hp.save(pav, first)
        back = hp.load(pav)
        flags["average_saved_and_reloaded"] = bool(np.array_equal(back.transpose(*first.dims).values, first.values) and
                                                   np.allclose(np.asarray(getattr(back.noise_sd, "values", back.noise_sd), dtype=float).ravel(),
                                                               np.asarray(getattr(first.noise_sd, "values", first.noise_sd), dtype=float).ravel(), rtol=1e-15, atol=0))
    except Exception as e:
        flags["average_saved_and_reloaded"] = False
    return {"resid": {"avg_mean": fnum(worst_mean), "avg_noise": fnum(worst_noise), "avg_order": fnum(worst_order)}, "flags": flags,
            "orders": len(orders), "const": False}


def _run_meta(case, td):
    from holopy.core.metadata import update_metadata
    from vf.monitors import digest
    rng = rng_for(*case["seed"])
    c0 = dict(case, shape=[3, 4], metaform="dict", named=True)
    im, kw, desc, sp = _make_image(c0, rng, "float64")
    nch = case["channels"]
    fields = ["medium_index", "illum_wavelen", "illum_polarization", "noise_sd"]
    flags = {"only_named_changed": True, "named_changed": True, "original_untouched": True, "pol_unit": True, "values_coords_kept": True, "is_copy": True,
             "shares_no_pixel_memory": True, "original_untouched_by_edits_of_result": True}
    before = digest(im)
    nsub = 0
    for r in range(0, 5):
        for sub in itertools.combinations(fields, r):
            new, newdesc, _ = {}, {}, None
            c1 = dict(c0, metaform=["dict", "array", "scalar"][nsub % 3] if nch else "scalar")
            kw2, desc2 = _meta_for(c1, rng, nch)
            upd = {k: kw2[k] for k in sub}
            b = update_metadata(im, **upd)
            nsub += 1
            flags["is_copy"] &= b is not im
            flags["values_coords_kept"] &= bool(np.array_equal(b.values, im.values) and all(np.array_equal(b[c].values, im[c].values) for c in im.dims) and b.name == im.name)
            for k in fields:
                if k in sub:
                    # new value present, by label
                    if nch and k != "medium_index":
                        for l in LABELS[:nch]:
                            got = _attr_by_label(b.attrs[k], l)
                            exp = np.asarray(desc2[k][l], dtype=float)
                            if k == "illum_polarization":
                                exp = np.append(exp, 0.0); exp = exp / np.sqrt((exp ** 2).sum())
                                flags["pol_unit"] &= bool(abs(np.sqrt((got ** 2).sum()) - 1) < 1e-14)
                                flags["named_changed"] &= bool(np.allclose(got, exp, rtol=0, atol=4e-16))
                            else:
                                flags["named_changed"] &= bool(np.array_equal(got.ravel(), exp.ravel()))
                    else:
                        got = np.asarray(getattr(b.attrs[k], "values", b.attrs[k]), dtype=float)
                        exp = np.asarray(upd[k], dtype=float)
                        if k == "illum_polarization":
                            exp = np.append(exp, 0.0); exp = exp / np.sqrt((exp ** 2).sum())
                            flags["pol_unit"] &= bool(abs(np.sqrt((got ** 2).sum()) - 1) < 1e-14)
                            flags["named_changed"] &= bool(np.allclose(got, exp, rtol=0, atol=4e-16))
                        else:
                            flags["named_changed"] &= bool(np.array_equal(got.ravel(), exp.ravel()))
                else:
                    flags["only_named_changed"] &= bool(digest(b.attrs.get(k)) == digest(im.attrs.get(k)))
            flags["only_named_changed"] &= bool(set(b.attrs) == set(im.attrs))
            flags["original_untouched"] &= bool(digest(im) == before)
            # "a new image": editing the result in place afterwards (b -= b.mean(), b.illum_wavelen.loc[...] = ...) must stay in it
            flags["shares_no_pixel_memory"] &= bool(not np.shares_memory(b.values, im.values))
            b.values[...] = b.values + 100.0
            b -= 1.0
            for k in fields:
                v = b.attrs.get(k)
                if hasattr(v, "values") and getattr(v.values, "ndim", 0) > 0 and v.values.flags.writeable:
                    v.values[...] = 123.0
            for d in b.dims:
                if b[d].values.dtype.kind == "f" and b[d].values.flags.writeable:
                    try:
                        b[d].values[...] = b[d].values + 7.0
                    except ValueError:
                        pass
            flags["original_untouched_by_edits_of_result"] &= bool(digest(im) == before)
    # polarization handed over as an already labelled array of arbitrary length is normalised as well
    import xarray as xr
    v = xr.DataArray([1.5, -2.0, 0.0], coords={"vector": ["x", "y", "z"]}, dims="vector")
    bb = update_metadata(im, illum_polarization=v)
    got = np.asarray(bb.attrs["illum_polarization"].values, dtype=float)
    flags["pol_unit_labelled_array"] = bool(got.shape[-1] == 3 and np.allclose(got.reshape(-1, 3)[0] if got.ndim > 1 else got, [0.6, -0.8, 0.0], rtol=0, atol=4e-16))
    # fields of the image that are not part of the standard set stay on the result
    im2 = im.copy()
    im2.attrs = dict(im2.attrs, exposure_time=0.25, camera="cam7", frame=17)
    b2 = update_metadata(im2, medium_index=1.41)
    flags["extra_fields_kept"] = bool(b2.attrs.get("exposure_time") == 0.25 and b2.attrs.get("camera") == "cam7" and b2.attrs.get("frame") == 17
                                      and b2.attrs.get("medium_index") == 1.41)
    return {"resid": {}, "flags": {k: bool(v) for k, v in flags.items()}, "subsets": nsub, "const": False}


# ------------------------------------------------------------------ oracle

TOL = {"tiff_quanta": 1.0, "avg_mean": 1e-12, "avg_noise": 1e-12, "avg_order": 1e-12}


def judge(case, obs):
    out = []
    desc = {k: case[k] for k in case if k not in ("seed", "id", "cost")}
    for k, v in obs.get("flags", {}).items():
        if not v:
            mech = "%s.%s" % (case["kind"], k)
            if case["kind"] == "h5" and k in ("values_bitwise", "dtype"):
                mech += "." + case["dtype"]
            out.append({"mech": mech, "detail": "flag %s false; bad=%s; %s" % (k, obs.get("bad_fields"), desc)})
    for k, v in obs.get("resid", {}).items():
        if not v <= TOL[k]:
            out.append({"mech": "%s.%s" % (case["kind"], k), "detail": "%s=%.4g > %.3g; %s" % (k, v, TOL[k], desc)})
    return out


def judge_exception(case, o):
    ex = o["exception"]
    mech = "exception.%s.%s" % (case["kind"], ex["type"])
    if case["kind"] == "h5":
        mech += "." + case["dtype"]
    if case["kind"] == "tiff":
        mech += ".ch%d" % case["channels"]
    return [{"mech": mech, "detail": ex["tb"][-900:]}]


def nontrivial(case, obs):
    return not obs.get("const")
