"""C10 T-matrix scatterers: sphere limit, symmetry, never abort the interpreter."""
import math
import os
import re
import subprocess

import numpy as np

from ..util import rng_for, fnum, loguniform, relmax
from .. import scat

LEVEL_TEXT = ("Runtime monitoring of the real T-matrix path (compiled Mishchenko code) : (a) spheres at all azimuths and polar "
              "angles up to 1 rad are compared with the far-field Lorenz-Mie solver for fields and amplitude matrices, "
              "directly and inside the lens wrapper, and equal-axes spheroids with spheres; (b) spheroids and cylinders are "
              "spun about their axis, axis-reversed, mirrored and rotated about the optical axis (amplitude matrices for "
              "arbitrary angles); (c) a process-boundary monitor runs hostile calls (Euler angles negative / beyond pi, 2pi, "
              "+-1e3, sizes 1e-3..200, aspect ratios to 0.05/20, strong absorption, out-of-range detector angles) one by one "
              "in sentinel-guarded children built with -fcheck=bounds and a Fortran STOP shim: each call must return finite "
              "values or raise a Python exception; a child that disappears between BEGIN and END is a termination event "
              "whose STOP site is recorded.")
LEVEL_NOTE = "Trusted: the Lorenz-Mie solver as reference for spheres (itself checked against an independent series in C02); the T-matrix is stored in single precision by the Fortran code, so agreement is expected at ~1e-7."
TECHNIQUE = "runtime monitoring: process-boundary sentinel monitor with Fortran STOP shim and bounds-checked build for the no-abort claim; differential (vs Mie) and metamorphic (symmetry) oracles on recorded executions"
RULE = ("sphere: x log-uniform [0.1,20], real and absorbing, 16 points at random azimuths, theta<=1; lens: Lens(a,Tmatrix) vs "
        "Lens(a,Mie); shape: spheroids aspect 0.3-3 / cylinders 0.5-2 with random orientation; hostile: catalogue of angle "
        "values x sizes x aspects. non-trivial = call returned values or raised (hostile) / field non-zero (others); "
        "distinct by rounded case JSON")
ASSUMPTIONS = ["polarization is (1,0) for field comparisons (the only one the theory accepts); amplitude matrices carry the polarization-independent information",
               "hostile inputs are finite real numbers (NaN/inf angles are not 'real-valued')"]
MIN_NONTRIVIAL = 20
REQUIRED_COUNTERS = ["calc_field", "calc_scat_matrix"]
CASE_TIMEOUT = 240


def cases(tier, seed):
    out = []
    rng = rng_for(seed, "c10")
    n = 120 if tier == "quick" else 2500
    for i in range(n):
        o = scat.gen_optics(rng, pol="x")
        s = scat.gen_sphere(rng, o, xmax=20.0, xmin=0.1, absorbing=(i % 3 == 0), center=[0.0, 0.0, 0.0])
        out.append({"id": "sph-%d" % i, "kind": "sphere", "optics": o, "sphere": s, "seed": [seed, "sph", i], "cost": 3})
    for i in range(max(6, n // 4)):
        o = scat.gen_optics(rng, pol="x")
        s = scat.gen_sphere(rng, o, xmax=8.0, xmin=0.3, absorbing=False, center=[0.0, 0.0, float(rng.uniform(-2, 8))])
        out.append({"id": "lens-%d" % i, "kind": "lens", "optics": o, "sphere": s, "la": float(rng.uniform(0.2, 1.0)), "seed": [seed, "lens", i], "cost": 10})
    for i in range(n):
        o = scat.gen_optics(rng, pol="x")
        s = scat.gen_spheroid(rng, o, xmax=5.0, aspect=(0.3, 3.0)) if i % 2 == 0 else scat.gen_cylinder(rng, o, xmax=4.0, aspect=(0.5, 2.0))
        s["c"] = [0.0, 0.0, 0.0]
        if s["t"] == "cylinder" and i % 8 == 3:
            s["h"] = s["d"]          # diameter = height exactly (aspect parameter 1 without being a sphere)
        s["rot"] = [float(rng.uniform(0, 2 * math.pi)), float(rng.uniform(0.05, math.pi - 0.05)), float(rng.uniform(0, 2 * math.pi))]
        if i % 4 == 1:
            # particle azimuth exactly on a detector azimuth (0, pi/2, pi): what a pixel grid aligned with the particle produces
            s["rot"][2] = [0.0, math.pi, math.pi / 2][(i // 4) % 3]
        if i % 8 == 3:
            # axis exactly along / against the beam (its reversal is then exactly against / along)
            s["rot"][1] = [0.0, math.pi][(i // 8) % 2]
        out.append({"id": "shape-%d" % i, "kind": "shape", "optics": o, "scat": s, "alpha": float(rng.uniform(0, 2 * math.pi)), "seed": [seed, "shape", i], "cost": 6})
    # hostile catalogue (chk build, each its own sentinel; cases share children, a death restarts the child)
    angles = [0.0, math.pi, 2 * math.pi, -0.3, -math.pi, 4.0, 7.0, -7.0, 1e3, -1e3, math.pi + 1e-12, 2 * math.pi + 1e-9, -1e-12, 100 * math.pi]
    k = 0
    for a in angles:
        for b in angles[: (6 if tier == "quick" else len(angles))]:
            what = ["spheroid", "cylinder"][k % 2]
            out.append({"id": "host-ang-%d" % k, "kind": "hostile", "what": what, "x": 2.0, "aspect": [0.7, 1.4][k % 2], "m": [1.2, 0.0],
                        "rot": [float(rng.uniform(-10, 10)), b, a], "flavour": "chk", "cost": 2})
            k += 1
    sizes = [1e-3, 1e-2, 0.1, 1, 5, 10, 20, 40, 60, 90, 120, 200] if tier != "quick" else [1e-3, 5, 30, 200]
    aspects = [0.05, 0.1, 0.3, 1.0, 3.0, 10.0, 20.0] if tier != "quick" else [0.05, 1.0, 20.0]
    ms = [[1.2, 0.0], [1.5, 0.5], [2.5, 0.0], [1.01, 0.0]] if tier != "quick" else [[1.2, 0.0], [1.5, 0.5]]
    for x in sizes:
        for asp in aspects:
            for m in ms:
                for what in (["sphere", "spheroid", "cylinder"] if asp == 1.0 else ["spheroid", "cylinder"]):
                    out.append({"id": "host-size-%d" % k, "kind": "hostile", "what": what, "x": x, "aspect": asp, "m": m,
                                "rot": [0.0, 0.4, 0.3], "flavour": "chk", "cost": 4, "timeout": 240})
                    k += 1
    # sizes that are no sizes: negative, zero, not a number, infinite (F135: the interpreter must survive them)
    for j, (bad, asp_) in enumerate([(-0.3, 1.5), (float("nan"), 1.5), (0.3, -1.5), (0.3, float("nan")), (0.0, 1.5), (float("inf"), 1.5), (0.3, float("inf"))]):
        for what in ("spheroid", "cylinder"):
            out.append({"id": "host-badsize-%d-%s" % (j, what), "kind": "hostile", "what": what, "x": 2.0, "aspect": asp_, "m": [1.3, 0.0], "rot": [0.0, 0.4, 0.3],
                        "raw_r": bad, "flavour": "chk", "cost": 2, "proc": "badsize-%d-%s" % (j, what)})
    for j, r3 in enumerate([(0.0, 1e-7, 1e-7), (0.0, 1e-7, 0.0), (0.3, 1e-7, 1e-7), (0.0, math.pi - 1e-7, 1e-7), (1e-7, 1e-7, 1e-7), (0.0, 2e-7, 1e-7)]):
        # orientations that coincide with the directions the Fortran code nudges by 1e-7 internally
        out.append({"id": "host-nudge-%d" % j, "kind": "hostile", "what": ["spheroid", "cylinder"][j % 2], "x": 2.0, "aspect": 1.4, "m": [1.3, 0.0],
                    "rot": list(r3), "flavour": "chk", "cost": 2})
    for j, (th, ph) in enumerate([(0.3, -0.1), (0.3, 7.0), (-0.2, 1.0), (3.5, 1.0), (0.0, 0.0), (math.pi, 2 * math.pi), (1.0, -1e3)]):
        out.append({"id": "host-det-%d" % j, "kind": "hostile", "what": "spheroid", "x": 2.0, "aspect": 1.3, "m": [1.2, 0.0], "rot": [0.0, 0.4, 0.3],
                    "det_angles": [th, ph], "flavour": "chk", "cost": 2})
    return out


# ------------------------------------------------------------------ child

def _pts(rng, n=16, thmax=1.0):
    th = rng.uniform(0.0, thmax, n)
    th[0] = 0.0
    ph = rng.uniform(0, 2 * math.pi, n)
    ph[1:5] = [0.0, math.pi / 2, math.pi, 3 * math.pi / 2]
    return th, ph


@scat.guarded
def run_case(case):
    return globals()["_run_" + case["kind"]](case)


def _run_sphere(case):
    import holopy as hp
    from holopy.scattering import calc_field, calc_scat_matrix, Spheroid
    from holopy.scattering.theory import Mie, Tmatrix
    rng = rng_for(*case["seed"])
    o = case["optics"]
    s = scat.build_scatterer(case["sphere"])
    th, ph = _pts(rng)
    k = scat.kmed(o)
    R = 200.0 / k + 50 * s.r
    det = hp.detector_points(theta=th, phi=ph, r=np.full(th.size, R))
    a = dict(medium_index=o["medium_index"], illum_wavelen=o["illum_wavelen"])
    far = Mie(full_radial_dependence=False, compute_escat_radial=False)
    ft = calc_field(det, s, illum_polarization=(1, 0), theory=Tmatrix(), **a).values
    fm = calc_field(det, s, illum_polarization=(1, 0), theory=far, **a).values
    st = calc_scat_matrix(det, s, theory=Tmatrix(), **a).values
    sm = calc_scat_matrix(det, s, theory=Mie(), **a).values
    resid = {"sphere_field": relmax(ft, fm), "sphere_smat": relmax(st, sm)}
    # cartesian detector points too
    x = R * np.sin(th) * np.cos(ph); y = R * np.sin(th) * np.sin(ph)
    sc = scat.build_scatterer(dict(case["sphere"], c=[0.0, 0.0, float(R)]))
    detc = hp.detector_points(x=x, y=y, z=0.0)
    fct = calc_field(detc, sc, illum_polarization=(1, 0), theory=Tmatrix(), **a).values
    fcm = calc_field(detc, sc, illum_polarization=(1, 0), theory=far, **a).values
    resid["sphere_field_cart"] = relmax(fct, fcm)
    # spheroid with equal semi-axes is that sphere
    sp = Spheroid(n=s.n, r=(s.r, s.r), rotation=(0.3, float(rng.uniform(0, 3)), float(rng.uniform(0, 6))), center=(0, 0, 0))
    fs = calc_field(det, sp, illum_polarization=(1, 0), theory=Tmatrix(), **a).values
    resid["equal_axes_spheroid"] = relmax(fs, ft)
    resid["equal_axes_spheroid_vs_mie"] = relmax(fs, fm)
    # the next particle differs from the previous one ONLY in absorption (then only in the real part, then back): state
    # that the Fortran code keeps between calls must not leak from one particle into the next
    from holopy.scattering import Sphere
    worst = 0.0
    n0 = complex(s.n)
    for nn in (complex(n0.real, n0.imag + 0.07), complex(n0.real * 1.01, n0.imag + 0.07), n0 if n0.imag else n0.real):
        sv = Sphere(n=nn, r=s.r, center=(0, 0, 0))
        a_t = calc_field(det, sv, illum_polarization=(1, 0), theory=Tmatrix(), **a).values
        a_m = calc_field(det, sv, illum_polarization=(1, 0), theory=far, **a).values
        worst = max(worst, relmax(a_t, a_m))
    resid["sphere_field@one_input_changed"] = worst
    return {"resid": resid, "flags": {}, "fmax": fnum(float(np.abs(fm).max()))}


def _run_lens(case):
    import warnings
    import holopy as hp
    from holopy.scattering import calc_field
    from holopy.scattering.theory import Mie, Tmatrix, Lens
    rng = rng_for(*case["seed"])
    o = case["optics"]
    s = scat.build_scatterer(case["sphere"])
    det = scat.build_detector(scat.gen_points(rng, n=10))
    a = dict(medium_index=o["medium_index"], illum_wavelen=o["illum_wavelen"], illum_polarization=(1, 0))
    with warnings.catch_warnings():
        warnings.simplefilter("ignore")
        lt = calc_field(det, s, theory=Lens(case["la"], Tmatrix(), 40, 40), **a).values
        lm = calc_field(det, s, theory=Lens(case["la"], Mie(), 40, 40), **a).values
    return {"resid": {"lens_tmatrix_vs_mie": relmax(lt, lm)}, "flags": {}, "fmax": fnum(float(np.abs(lm).max()))}


def _run_shape(case):
    import holopy as hp
    from holopy.scattering import calc_field, calc_scat_matrix
    from holopy.scattering.theory import Tmatrix
    rng = rng_for(*case["seed"])
    o = case["optics"]
    spec = case["scat"]
    s = scat.build_scatterer(spec)
    th, ph = _pts(rng)
    k = scat.kmed(o)
    R = 300.0 / k
    det = hp.detector_points(theta=th, phi=ph, r=np.full(th.size, R))
    a = dict(medium_index=o["medium_index"], illum_wavelen=o["illum_wavelen"])
    S0 = calc_scat_matrix(det, s, theory=Tmatrix(), **a).values
    F0 = calc_field(det, s, illum_polarization=(1, 0), theory=Tmatrix(), **a).values
    al, be, ga = spec["rot"]
    resid = {}
    # spin about the particle's own axis
    s1 = scat.build_scatterer(dict(spec, rot=[al + 1.234, be, ga]))
    resid["spin_smat"] = relmax(calc_scat_matrix(det, s1, theory=Tmatrix(), **a).values, S0)
    resid["spin_field"] = relmax(calc_field(det, s1, illum_polarization=(1, 0), theory=Tmatrix(), **a).values, F0)
    # axis reversal
    s2 = scat.build_scatterer(dict(spec, rot=[al, math.pi - be, (ga + math.pi) % (2 * math.pi)]))
    resid["reverse_smat"] = relmax(calc_scat_matrix(det, s2, theory=Tmatrix(), **a).values, S0)
    resid["reverse_field"] = relmax(calc_field(det, s2, illum_polarization=(1, 0), theory=Tmatrix(), **a).values, F0)
    # rotation of particle and detector azimuths by an arbitrary angle: amplitude matrix in the scattering-plane basis is unchanged
    A = case["alpha"]
    s3 = scat.build_scatterer(dict(spec, rot=[al, be, (ga + A) % (2 * math.pi)]))
    det3 = hp.detector_points(theta=th, phi=(ph + A) % (2 * math.pi), r=np.full(th.size, R))
    resid["rotate_smat"] = relmax(calc_scat_matrix(det3, s3, theory=Tmatrix(), **a).values, S0)
    # mirror in the x-z plane: S_par,par and S_perp,perp unchanged, off-diagonals change sign; field (x, -y, z)
    s4 = scat.build_scatterer(dict(spec, rot=[al, be, (-ga) % (2 * math.pi)]))
    det4 = hp.detector_points(theta=th, phi=(-ph) % (2 * math.pi), r=np.full(th.size, R))
    S4 = calc_scat_matrix(det4, s4, theory=Tmatrix(), **a).values
    exp = S0.copy(); exp[:, 0, 1] *= -1; exp[:, 1, 0] *= -1
    resid["mirror_smat"] = relmax(S4, exp)
    F4 = calc_field(det4, s4, illum_polarization=(1, 0), theory=Tmatrix(), **a).values
    resid["mirror_field"] = relmax(F4, np.stack([F0[:, 0], -F0[:, 1], F0[:, 2]], axis=1))
    # field is what the amplitude matrix says for x-polarized light: E_theta, E_phi from S in the scattering plane basis
    kr = k * R
    pref = np.exp(1j * kr) / (-1j * kr)
    Epar = pref * (S0[:, 0, 0] * np.cos(ph) + S0[:, 0, 1] * np.sin(ph))
    Eperp = pref * (S0[:, 1, 0] * np.cos(ph) + S0[:, 1, 1] * np.sin(ph))
    Eth, Eph = Epar, -Eperp
    Fx = Eth * np.cos(th) * np.cos(ph) - Eph * np.sin(ph)
    Fy = Eth * np.cos(th) * np.sin(ph) + Eph * np.cos(ph)
    Fz = -Eth * np.sin(th)
    resid["field_from_smat"] = relmax(F0, np.stack([Fx, Fy, Fz], axis=1))
    # the same invariances through the theory object's own methods, the orientation being a float array that the caller
    # keeps and re-uses (calc_* copy the scatterer first, which would hide an orientation modified in place)
    from holopy.scattering.scatterer import Spheroid, Cylinder
    from vf.monitors import digest
    flags = {}
    rot = np.array(spec["rot"], dtype=float)
    mk = (lambda r: Spheroid(n=scat.cnum(spec["n"]), r=tuple(spec["r"]), rotation=r, center=tuple(spec["c"]))) if spec["t"] == "spheroid" else \
         (lambda r: Cylinder(n=scat.cnum(spec["n"]), h=spec["h"], d=spec["d"], rotation=r, center=tuple(spec["c"])))
    sA = mk(rot)
    pos = np.vstack([np.full(th.size, kr), th, ph])
    d0 = digest(sA)
    tm = Tmatrix()
    T0 = tm.raw_scat_matrs(sA, pos, medium_wavevec=k, medium_index=o["medium_index"])
    T1 = tm.raw_scat_matrs(sA, pos, medium_wavevec=k, medium_index=o["medium_index"])
    flags["theory_level_repeatable"] = bool(np.array_equal(T0, T1))
    flags["theory_level_scatterer_untouched"] = bool(digest(sA) == d0 and np.array_equal(rot, np.array(spec["rot"], dtype=float)))
    T2 = tm.raw_scat_matrs(mk(rot + np.array([1.234, 0.0, 0.0])), pos, medium_wavevec=k, medium_index=o["medium_index"])
    resid["spin_smat@theory_level"] = relmax(T2, T0)
    T3 = Tmatrix().raw_scat_matrs(mk(tuple(spec["rot"])), pos, medium_wavevec=k, medium_index=o["medium_index"])
    resid["array_vs_tuple_rotation"] = relmax(T3, T0)
    return {"resid": resid, "flags": flags, "fmax": fnum(float(np.abs(F0).max()))}


def _run_hostile(case):
    import holopy as hp
    from holopy.scattering import calc_field, calc_holo, calc_scat_matrix, Sphere, Spheroid, Cylinder
    from holopy.scattering.theory import Tmatrix
    nmed, wl = 1.33, 0.66
    k = 2 * math.pi * nmed / wl
    m = complex(*case["m"])
    n = (m if m.imag else m.real) * nmed
    r = case["x"] / k if case.get("raw_r") is None else case["raw_r"]
    asp = case["aspect"]
    try:
        if case["what"] == "sphere":
            s = Sphere(n=n, r=r, center=(1, 1, 10))
        elif case["what"] == "spheroid":
            s = Spheroid(n=n, r=(r, r * asp), rotation=tuple(case["rot"]), center=(1, 1, 10))
        else:
            s = Cylinder(n=n, d=2 * r, h=2 * r * asp, rotation=tuple(case["rot"]), center=(1, 1, 10))
    except Exception as e:
        return {"resid": {}, "flags": {}, "outcome": {"constructor": "raised:" + type(e).__name__}, "fmax": 1.0}
    outcome = {}
    if case.get("det_angles"):
        th, ph = case["det_angles"]
        det = hp.detector_points(theta=np.array([0.2, th]), phi=np.array([0.1, ph]))
        calls = [("calc_scat_matrix", lambda: calc_scat_matrix(det, s, nmed, wl, theory=Tmatrix()))]
    else:
        det = hp.detector_grid((2, 3), 0.7)
        calls = [("calc_holo", lambda: calc_holo(det, s, nmed, wl, (1, 0), theory=Tmatrix())),
                 ("calc_scat_matrix", lambda: calc_scat_matrix(det, s, nmed, wl, theory=Tmatrix()))]
    for nm, f in calls:
        try:
            v = f()
            outcome[nm] = "finite" if np.all(np.isfinite(v.values)) else "nonfinite"
        except Exception as e:
            outcome[nm] = "raised:" + type(e).__name__
    return {"resid": {}, "flags": {}, "outcome": outcome, "fmax": 1.0}


# ------------------------------------------------------------------ oracle

TOL = {"sphere_field": 5e-6, "sphere_smat": 5e-6, "sphere_field_cart": 5e-6, "equal_axes_spheroid": 5e-6, "equal_axes_spheroid_vs_mie": 5e-6,
       "lens_tmatrix_vs_mie": 5e-6, "spin_smat": 0.0, "spin_field": 0.0, "reverse_smat": 5e-6, "reverse_field": 5e-6, "rotate_smat": 5e-6,
       "mirror_smat": 5e-6, "mirror_field": 5e-6, "field_from_smat": 1e-9, "spin_smat@theory_level": 0.0, "sphere_field@one_input_changed": 5e-6, "array_vs_tuple_rotation": 0.0}


def judge(case, obs):
    out = []
    if case["kind"] == "hostile":
        for nm, oc in obs["outcome"].items():
            if oc == "nonfinite":
                out.append({"mech": "hostile.nonfinite.%s" % nm, "detail": "returned non-finite values without raising; %s" % {x: case[x] for x in case if x in ("what", "x", "aspect", "m", "rot", "det_angles")}})
        return out
    for k, v in obs.get("flags", {}).items():
        if not v:
            out.append({"mech": "%s.%s" % (case["kind"], k), "detail": "flag %s false; %s" % (k, {x: case[x] for x in case if x in ("scat",)})})
    for k, v in obs["resid"].items():
        if not v <= TOL[k]:
            out.append({"mech": "%s.%s" % (case["kind"], k), "detail": "%s=%.3e > %.0e; %s" % (k, v, TOL[k], {x: case[x] for x in case if x in ("sphere", "scat", "alpha", "la")})})
    return out


_SITE_CACHE = {}


def _stop_site(block):
    """resolve the innermost Fortran frame of the STOP backtrace to file:line (chk build has -g)"""
    for line in block.splitlines():
        m = re.match(r"(\S+\.so)\((\w+)\+0x([0-9a-f]+)\)", line.strip())
        if not m or "vf_die" in line or "_gfortran_stop" in line:
            continue
        so, sym, off = m.group(1), m.group(2), int(m.group(3), 16)
        key = (so, sym, off)
        if key in _SITE_CACHE:
            return _SITE_CACHE[key]
        site = sym
        try:
            nm = subprocess.run(["nm", so], stdout=subprocess.PIPE, text=True).stdout
            for l in nm.splitlines():
                p = l.split()
                if len(p) == 3 and p[2] == sym:
                    addr = int(p[0], 16) + off - 1
                    a2l = subprocess.run(["addr2line", "-e", so, hex(addr)], stdout=subprocess.PIPE, text=True).stdout.strip()
                    site = "%s@%s" % (sym, os.path.basename(a2l))
                    break
        except Exception:
            pass
        _SITE_CACHE[key] = site
        return site
    return "unknown"


def judge_terminated(case, o):
    desc = {x: case[x] for x in case if x in ("what", "x", "aspect", "m", "rot", "det_angles", "kind")}
    if o.get("stop_block"):
        site = _stop_site(o["stop_block"])
        return [{"mech": "terminated.fortran_stop.%s" % site, "detail": "interpreter terminated by Fortran STOP at %s; %s" % (site, desc)}]
    tail = o.get("stderr_tail", "")
    if "Fortran runtime error" in tail:
        return [{"mech": "terminated.fortran_runtime_error", "detail": tail[-400:] + " ;; %s" % desc}]
    return [{"mech": "terminated.rc_%s" % o.get("rc"), "detail": "interpreter terminated (rc=%s) %s ;; %s" % (o.get("rc"), tail[-300:], desc)}]


def nontrivial(case, obs):
    return obs.get("fmax", 0) > 0


def evidence_extra(cases, obs):
    oc = {}
    term = 0
    for c in cases:
        o = obs.get(c["id"], {})
        if o.get("terminated"):
            term += 1
        ob = o.get("obs")
        if c["kind"] == "hostile" and isinstance(ob, dict):
            for nm, v in ob["outcome"].items():
                oc[v] = oc.get(v, 0) + 1
    return {"hostile_outcomes": oc, "hostile_terminations": term}
