"""C19 Coordinate conversions and Euler rotations are mutually consistent."""
import itertools
import math

import numpy as np

from ..util import rng_for, fnum, loguniform

NEEDS_FORTRAN = False
LEVEL_TEXT = ("Runtime monitoring: the real conversion, rotation-matrix and composite rotate/translate functions are "
              "executed on a boundary catalogue plus thousands of seeded random inputs; an oracle compares each result "
              "with independently computed references (atan2/acos, hand-built Rz*Ry*Rz, rigid-motion invariants). "
              "Held means held on the executions listed in the evidence, nothing more.")
LEVEL_NOTE = "Trusted: numpy elementary functions (incl. hypot), the checker's own reference formulas; magnitudes 1e-290..1e290."
TECHNIQUE = "runtime monitoring: generated inputs through the real functions, reference-model oracle on the observed results"
INSTALL_MONITORS = False
RULE = ("cases = boundary catalogue (axes, quadrant boundaries with +-0.0 / 1e-17 / 1e-300 components, "
        "magnitudes 1e-290..1e290, integer coordinate arrays up to 4e9, angle triples 0/pi/2pi/negative/large, angles as "
        "Python numbers and as 0-d / integer arrays) + seeded random clouds, angle triples and "
        "composites of 1-6 spheres (flat, nested two and three levels deep, RigidCluster, two-member CSG unions, alone and as members of rotated collections); every scalar/array pattern of a coordinate triple; non-trivial = case produced >=1 finite residual and "
        "is distinct after rounding its JSON to 6 significant digits")
ASSUMPTIONS = ["numpy arctan2/sin/cos are correctly rounded to a few ulp",
               "magnitudes outside 1e-290..1e290 are out of bounds (products of coordinates and sines become subnormal / overflow)"]
MIN_NONTRIVIAL = 10

TWO_PI = 2 * math.pi

TOL = {
    "c2s2c": 1e-12, "c2c2c": 1e-12, "s2c2s_r": 1e-12, "s2c2s_ang": 1e-11, "y2c2y": 1e-12,
    "s2y2s": 1e-11, "y2s2y": 1e-11,
    "compose_cys": 1e-13, "compose_scy": 1e-13, "norm_sph": 1e-14, "norm_cyl": 1e-14,
    "phi_vs_atan2": 1e-15, "theta_vs_acos": 1e-9, "identity": 0.0,
    "orth": 1e-14, "det": 1e-14, "zyz": 1e-14, "deg": 1e-12, "deg_same_numbers": 1e-14, "deg_integer_arrays": 1e-14, "rotpts": 1e-13, "rotdist": 1e-13, "rotpts@int_forms": 1e-13, "int_forms": 0.0, "int_forms@large": 1e-15, "rotpts@float32": 1e-6,
    "single_point_equals_array_of_one": 1e-15, "rigid_cluster_moves_like_its_spheres": 1e-12, "pair_rot": 1e-12, "centroid_rot": 1e-12, "pair_tr": 1e-12, "centroid_tr": 1e-12, "rigid_pos": 1e-12,
    "tr3": 0.0, "rot3": 0.0,
}


# ------------------------------------------------------------------ cases

def cases(tier, seed):
    out = []
    n_rand = 300 if tier == "quick" else 12000
    # boundary catalogue of points
    tiny = [0.0, -0.0, 1e-17, -1e-17, 1e-300, -1e-300, 1.0, -1.0]
    cat = []
    for x, y in itertools.product(tiny, tiny):
        for z in (0.0, 1.0, -1.0, 1e-17, -2.5):
            cat.append([x, y, z])
    out.append({"id": "pts-catalogue", "kind": "pts", "points": cat})
    out.append({"id": "pts-axes", "kind": "pts", "points": [[1, 0, 0], [-1, 0, 0], [0, 1, 0], [0, -1, 0], [0, 0, 1],
                                                          [0, 0, -1], [0, 0, 0], [3, 0, 4], [0, 3, -4]]})
    for i, mag in enumerate([1e-150, 1e-100, 1e-30, 1e-8, 1, 1e8, 1e30, 1e100, 1e150, 1e-290, 1e-200, 1e-170, 1.3e155, 1e200, 1e290]):
        out.append({"id": "pts-mag-%d" % i, "kind": "pts", "seed": [seed, "mag", i], "n": 60, "mag": mag})
    for i in range(n_rand):
        out.append({"id": "pts-rand-%d" % i, "kind": "pts", "seed": [seed, "pts", i], "n": 40, "mag": None,
                    "scalar_z": bool(i % 3 == 0)})
    # angle triples
    special = [0.0, math.pi, TWO_PI, -math.pi / 2, math.pi / 2, -0.3, 7.0, 1e3, -1e3, 1e-9]
    trip = [list(t) for t in itertools.product(special[:6], repeat=3)]
    if tier == "quick":
        trip = trip[::3]
    trip += [[a, b, g] for a in special[6:] for b in special[6:] for g in (0.0, 0.4)]
    for i, t in enumerate(trip):
        out.append({"id": "rot-cat-%d" % i, "kind": "rot", "angles": t})
    for i in range(n_rand):
        out.append({"id": "rot-rand-%d" % i, "kind": "rot", "seed": [seed, "rot", i]})
    # composites
    for i in range(n_rand):
        out.append({"id": "comp-%d" % i, "kind": "comp", "seed": [seed, "comp", i],
                    "shape": ["spheres", "scatterers", "nested", "rigid", "nested3", "csg"][i % 6], "nmem": 1 + (i // 6) % 6})
    for i in range(40 if tier == "quick" else 600):
        out.append({"id": "comp-lattice-%d" % i, "kind": "comp", "seed": [seed, "complat", i], "lattice": 1 + i % 5,
                    "shape": ["spheres", "scatterers", "nested", "rigid", "nested3", "csg"][(i // 5) % 6], "nmem": 2 + (i // 30) % 4})
    return out


# ------------------------------------------------------------------ child

def _angdist(a, b):
    d = np.abs(np.asarray(a) - np.asarray(b)) % TWO_PI
    return np.minimum(d, TWO_PI - d)


def _mx(a):
    a = np.asarray(a, dtype=float)
    if a.size == 0:
        return 0.0
    return fnum(np.max(a))


def _Rz(t):
    c, s = math.cos(t), math.sin(t)
    return np.array([[c, -s, 0], [s, c, 0], [0, 0, 1.0]])


def _Ry(t):
    c, s = math.cos(t), math.sin(t)
    return np.array([[c, 0, s], [0, 1.0, 0], [-s, 0, c]])


def run_case(case):
    return globals()["_run_" + case["kind"]](case)


def _points(case):
    if "points" in case:
        return np.array(case["points"], dtype=float)
    rng = rng_for(*case["seed"])
    n = case["n"]
    if case.get("mag"):
        p = rng.normal(size=(n, 3)) * case["mag"]
    else:
        p = rng.normal(size=(n, 3)) * loguniform(rng, 1e-6, 1e6, (n, 1))
        # sprinkle near-axis / planar points
        p[::7, 0] = 0.0
        p[3::7, 1] *= 1e-12
        p[5::7, 2] = 0.0
    return p


def _run_pts(case):
    from holopy.core.math import find_transformation_function as ftf
    p = _points(case)
    x, y, z = p[:, 0].copy(), p[:, 1].copy(), p[:, 2].copy()
    rho_true = np.hypot(x, y)
    r_true = np.hypot(rho_true, z)            # (no squares: they over/underflow beyond 1e+-154)
    scale = np.where(r_true > 0, r_true, 1.0)
    resid, flags = {}, {}
    c2s, c2y = ftf("cartesian", "spherical"), ftf("cartesian", "cylindrical")
    s2c, s2y = ftf("spherical", "cartesian"), ftf("spherical", "cylindrical")
    y2c, y2s = ftf("cylindrical", "cartesian"), ftf("cylindrical", "spherical")
    sph = np.asarray(c2s([x, y, z]))
    cyl = np.asarray(c2y([x, y, z]))
    flags["shape_ok"] = bool(sph.shape == (3, len(x)) and cyl.shape == (3, len(x)))
    # ranges
    phi_s, phi_c, theta = sph[2], cyl[1], sph[1]
    flags["phi_range"] = bool(np.all((phi_s >= 0) & (phi_s <= TWO_PI) & (phi_c >= 0) & (phi_c <= TWO_PI)))
    # ... also when the azimuth that goes in is written outside that range (arctan2's convention, several turns): cylindrical <-> spherical
    for shift_ in (-TWO_PI, -math.pi, 3 * TWO_PI):
        ps_ = np.asarray(y2s([cyl[0], cyl[1] + shift_, cyl[2]]))[2]
        pc_ = np.asarray(s2y([sph[0], sph[1], sph[2] + shift_]))[1]
        flags["phi_range"] &= bool(np.all((ps_ >= 0) & (ps_ <= TWO_PI) & (pc_ >= 0) & (pc_ <= TWO_PI)))
    flags["theta_range"] = bool(np.all((theta >= 0) & (theta <= math.pi)))
    flags["finite"] = bool(np.all(np.isfinite(sph)) and np.all(np.isfinite(cyl)))
    # phi == 2pi only where the exact angle is a rounding distance below 2pi
    at2 = np.arctan2(y, x)
    exact = np.where(at2 < 0, at2 + TWO_PI, at2)
    top = (phi_s == TWO_PI) | (phi_c == TWO_PI)
    flags["phi_2pi_only_by_rounding"] = bool(np.all(~top | ((at2 < 0) & (np.abs(at2) <= 4e-16 * TWO_PI))))
    resid["phi_vs_atan2"] = _mx(np.maximum(_angdist(phi_s, exact), _angdist(phi_c, exact)))
    ok = r_true > 0
    if ok.any():
        resid["theta_vs_acos"] = _mx(np.abs(theta[ok] - np.arccos(np.clip(z[ok] / r_true[ok], -1, 1))))
    # norms
    resid["norm_sph"] = _mx(np.abs(sph[0] - r_true) / scale)
    resid["norm_cyl"] = _mx(np.abs(np.hypot(cyl[0], cyl[2]) - r_true) / scale)
    # round trips from cartesian (valid everywhere)
    back = np.asarray(s2c(sph))
    resid["c2s2c"] = _mx(np.abs(back - np.array([x, y, z])).max(0) / scale)
    back = np.asarray(y2c(cyl))
    resid["c2c2c"] = _mx(np.abs(back - np.array([x, y, z])).max(0) / scale)
    # compositions
    a = np.asarray(y2s(cyl))
    resid["compose_cys"] = _mx(np.maximum(np.abs(a[0] - sph[0]) / scale,
                                          np.maximum(np.abs(a[1] - sph[1]), _angdist(a[2], sph[2]))))
    b = np.asarray(s2y(sph))
    resid["compose_scy"] = _mx(np.maximum(np.maximum(np.abs(b[0] - cyl[0]), np.abs(b[2] - cyl[2])) / scale,
                                          _angdist(b[1], cyl[1])))
    # round trips starting in spherical / cylindrical, away from singularities
    good = (rho_true > 1e-9 * r_true) & (r_true > 0)
    if good.any():
        s0 = sph[:, good]
        s1 = np.asarray(c2s(s2c(s0)))
        resid["s2c2s_r"] = _mx(np.abs(s1[0] - s0[0]) / s0[0])
        resid["s2c2s_ang"] = _mx(np.maximum(np.abs(s1[1] - s0[1]) * np.minimum(1.0, 1.0),
                                            _angdist(s1[2], s0[2])) * np.sin(s0[1]).clip(1e-9, 1))
        y0 = cyl[:, good]
        y1 = np.asarray(c2y(y2c(y0)))
        sc = r_true[good]
        resid["y2c2y"] = _mx(np.maximum(np.maximum(np.abs(y1[0] - y0[0]), np.abs(y1[2] - y0[2])) / sc,
                                        _angdist(y1[1], y0[1]) * (y0[0] / sc)))
        s2 = np.asarray(y2s(s2y(s0)))
        resid["s2y2s"] = _mx(np.maximum(np.abs(s2[0] - s0[0]) / s0[0],
                                        np.maximum(np.abs(s2[1] - s0[1]), _angdist(s2[2], s0[2])) * np.sin(s0[1])))
        y2 = np.asarray(s2y(y2s(y0)))
        resid["y2s2y"] = _mx(np.maximum(np.maximum(np.abs(y2[0] - y0[0]), np.abs(y2[2] - y0[2])) / sc,
                                        _angdist(y2[1], y0[1]) * (y0[0] / sc)))
    # identity transforms
    idd = 0.0
    for nm in ("cartesian", "spherical", "cylindrical"):
        o = np.asarray(ftf(nm, nm)([x, y, z]))
        idd = max(idd, float(np.abs(o - np.array([x, y, z])).max()))
    resid["identity"] = idd
    # integer-valued coordinates given as integer arrays / lists of ints / float32 mean the same points
    ip = np.round(np.clip(p[: min(len(x), 12)], -1e6, 1e6) / max(1.0, float(np.abs(p[: min(len(x), 12)]).max()) / 50.0)).astype(np.int64)
    ix, iy, iz = ip[:, 0], ip[:, 1], ip[:, 2]
    fs = np.asarray(c2s([ix.astype(float), iy.astype(float), iz.astype(float)]))
    fy = np.asarray(c2y([ix.astype(float), iy.astype(float), iz.astype(float)]))
    worst = 0.0
    for form in ([ix, iy, iz], np.array([ix, iy, iz]), [ix.astype(np.int32), iy.astype(np.int32), iz.astype(np.int32)]):     # components must support arithmetic: arrays, not nested lists
        gs, gy = np.asarray(c2s(form), dtype=float), np.asarray(c2y(form), dtype=float)
        if gs.shape != fs.shape or gy.shape != fy.shape:
            worst = np.inf
            break
        worst = max(worst, float(np.abs(gs - fs).max()), float(np.abs(gy - fy).max()))
    resid["int_forms"] = fnum(worst)
    # large whole numbers as integer arrays (their squares do not fit into 64 bits)
    big = np.array([[4_000_000_000, 3, 5], [3, -5_000_000_000, 1], [7, 2, 6_000_000_000]], dtype=np.int64).T
    gb = np.asarray(c2s([big[0], big[1], big[2]]), dtype=float)
    fb = np.asarray(c2s([big[0].astype(float), big[1].astype(float), big[2].astype(float)]))
    resid["int_forms@large"] = fnum(float(np.nanmax(np.abs(gb - fb) / np.maximum(np.abs(fb), 1e-300))) if np.all(np.isfinite(gb)) else np.inf)
    # scalar z is broadcast
    if case.get("scalar_z"):
        zc = float(z[0])
        cs = np.asarray(c2y([x, y, zc]))
        flags["scalar_z_c2y"] = bool(cs.shape == (3, len(x)) and np.all(cs[2] == zc) and np.array_equal(cs[:2], np.asarray(c2y([x, y, np.full(len(x), zc)]))[:2]))
        yc = np.asarray(y2c([cyl[0], cyl[1], zc]))
        flags["scalar_z_y2c"] = bool(yc.shape == (3, len(x)) and np.all(yc[2] == zc))
    # every conversion takes a single point given as three scalars, and arrays of any shape with one shared scalar coordinate (F100)
    ok_forms, worst_f = True, 0.0
    for i in (0, len(x) // 2, len(x) - 1):
        vals = (float(x[i]), float(y[i]), float(z[i]))
        for dst in ("cylindrical", "spherical"):
            try:
                one = np.asarray(ftf("cartesian", dst)(list(vals)), dtype=float).ravel()
                many = np.asarray(ftf("cartesian", dst)(np.array([[vals[0]], [vals[1]], [vals[2]]], dtype=float)), dtype=float).ravel()
                worst_f = max(worst_f, float(np.abs(one - many).max() / max(1.0, float(np.abs(many).max()))))
                back = np.asarray(ftf(dst, "cartesian")([float(v) for v in one]), dtype=float).ravel()
                if back.shape != (3,):
                    ok_forms = False
            except Exception:
                ok_forms = False
    try:
        g = np.arange(6, dtype=float).reshape(2, 3) + 1.0
        cy_ = np.asarray(ftf("cartesian", "cylindrical")([g, g[::-1] * 0.5, 2.5]))
        ca_ = np.asarray(ftf("cylindrical", "cartesian")([g, g * 0.1, -1.5]))
        ok_forms &= bool(cy_.shape == (3, 2, 3) and np.all(cy_[2] == 2.5) and np.allclose(cy_[0], np.hypot(g, g[::-1] * 0.5), rtol=1e-15)
                         and ca_.shape == (3, 2, 3) and np.all(ca_[2] == -1.5) and np.allclose(ca_[0], g * np.cos(g * 0.1), rtol=1e-15))
    except Exception:
        ok_forms = False
    flags["scalar_and_2d_forms_accepted"] = bool(ok_forms)
    # a scalar in ANY position of the triple (a line of points along z, a ring at one polar angle, ...) is broadcast against the arrays:
    # same numbers as writing the scalar out as a full array, for all nine conversions and all eight scalar/array patterns
    mixes_ok, mix_witness = True, None
    m = min(len(x), 7)
    trip = {"cartesian": [x[:m], y[:m], z[:m]], "spherical": [sph[0][:m], sph[1][:m], sph[2][:m]], "cylindrical": [cyl[0][:m], cyl[1][:m], cyl[2][:m]]}
    for src in trip:
        for dst in trip:
            for mask in range(8):
                mixed = [float(a[0]) if (mask >> j) & 1 else np.asarray(a, dtype=float) for j, a in enumerate(trip[src])]
                full = [np.full(m, float(a[0])) if (mask >> j) & 1 else np.asarray(a, dtype=float) for j, a in enumerate(trip[src])]
                try:
                    got = np.asarray(ftf(src, dst)(mixed), dtype=float)
                    want = np.asarray(ftf(src, dst)(full), dtype=float)
                    if mask == 7:
                        good_ = got.shape == (3,) and np.array_equal(got, want[:, 0], equal_nan=True)
                    else:
                        good_ = got.shape == (3, m) and np.array_equal(got, want, equal_nan=True)
                except Exception as e:
                    good_ = False
                if not good_ and mix_witness is None:
                    mix_witness = "%s->%s scalar mask %d" % (src, dst, mask)
                mixes_ok &= bool(good_)
    try:
        from holopy.core.math import to_cartesian
        ring = to_cartesian(2.0, 0.7, np.linspace(0, 6, 5))
        ring = np.array([np.asarray(ring[k_], dtype=float) for k_ in ("x", "y", "z")])
        ring_ok = bool(ring.shape == (3, 5) and np.allclose(np.hypot(np.hypot(ring[0], ring[1]), ring[2]), 2.0, rtol=1e-14))
        if not ring_ok:
            mix_witness = mix_witness or "to_cartesian(scalar r, scalar theta, array phi)"
        mixes_ok &= ring_ok
    except Exception:
        mixes_ok = False
        mix_witness = mix_witness or "to_cartesian(scalar r, scalar theta, array phi)"
    flags["scalar_array_mixes_broadcast"] = bool(mixes_ok)
    if mix_witness:
        flags["scalar_array_mixes_broadcast@" + mix_witness] = False
    resid["single_point_equals_array_of_one"] = fnum(worst_f)
    try:
        ftf("cartesian", "toroidal")
        flags["unknown_system_raises"] = False
    except NotImplementedError:
        flags["unknown_system_raises"] = True
    return {"resid": resid, "flags": flags, "n": int(len(x))}


def _run_rot(case):
    from holopy.core.math import rotation_matrix, rotate_points
    if "angles" in case:
        a, b, g = case["angles"]
    else:
        rng = rng_for(*case["seed"])
        a, b, g = rng.uniform(-2 * TWO_PI, 2 * TWO_PI, 3)
    a, b, g = float(a), float(b), float(g)
    R = rotation_matrix(a, b, g)
    resid = {}
    resid["orth"] = fnum(np.abs(R @ R.T - np.eye(3)).max())
    resid["det"] = fnum(abs(np.linalg.det(R) - 1))
    ref = _Rz(g) @ _Ry(b) @ _Rz(a)
    big = max(1.0, abs(a), abs(b), abs(g))
    resid["zyz"] = fnum(np.abs(R - ref).max())
    Rd = rotation_matrix(math.degrees(a), math.degrees(b), math.degrees(g), radians=False)
    resid["deg"] = fnum(np.abs(Rd - R).max() / big)
    Rd2 = rotation_matrix(math.degrees(a), math.degrees(b), math.degrees(g), False)
    flags = {"deg_positional_same": bool(np.array_equal(Rd, Rd2)), "shape": bool(R.shape == (3, 3))}
    # the SAME three numbers read as degrees (right after they were used as radians), then as radians again
    Rn = rotation_matrix(a, b, g, radians=False)
    refn = _Rz(math.radians(g)) @ _Ry(math.radians(b)) @ _Rz(math.radians(a))
    resid["deg_same_numbers"] = fnum(np.abs(Rn - refn).max())
    # angles handed over as numpy arrays (0-d float, 0-d integer) stay the caller's: unchanged, and a second call agrees
    arrs = [np.array(a), np.array(b), np.array(g)]
    Ra1 = rotation_matrix(arrs[0], arrs[1], arrs[2], radians=False)
    Ra2 = rotation_matrix(arrs[0], arrs[1], arrs[2], radians=False)
    flags["array_angles_not_modified"] = bool(float(arrs[0]) == a and float(arrs[1]) == b and float(arrs[2]) == g and np.array_equal(Ra1, Ra2) and np.array_equal(Ra1, Rn))
    ia = [np.array(int(round(a)) % 360), np.array(int(round(b)) % 360), np.array(int(round(g)) % 360)]
    try:
        Ri = rotation_matrix(ia[0], ia[1], ia[2], radians=False)
        refi = _Rz(math.radians(int(ia[2]))) @ _Ry(math.radians(int(ia[1]))) @ _Rz(math.radians(int(ia[0])))
        resid["deg_integer_arrays"] = fnum(np.abs(Ri - refi).max())
    except Exception as e:
        flags["integer_array_angles_accepted"] = False
    flags["repeat_after_other_unit"] = bool(np.array_equal(rotation_matrix(a, b, g), R) and np.array_equal(rotation_matrix(a, b, g, radians=False), Rn))
    rng = rng_for("rotpts", a, b, g)
    pts = rng.normal(size=(7, 3)) * 3
    rp = rotate_points(pts, a, b, g)
    resid["rotpts"] = fnum(np.abs(rp - (ref @ pts.T).T).max() / np.abs(pts).max())
    d0 = np.linalg.norm(pts[:, None] - pts[None], axis=-1)
    d1 = np.linalg.norm(rp[:, None] - rp[None], axis=-1)
    resid["rotdist"] = fnum(np.abs(d0 - d1).max() / d0.max())
    one = rotate_points(pts[0], a, b, g)
    flags["single_point"] = bool(np.shape(one) == (3,) and np.allclose(one, rp[0], rtol=0, atol=1e-14 * np.abs(pts).max()))
    flags["pts_unmodified"] = bool(np.array_equal(pts, rng_for("rotpts", a, b, g).normal(size=(7, 3)) * 3))
    # point sets in the other forms a caller may pass: integer arrays, nested lists of ints, float32, one point, (1,3)
    ipts = rng.integers(-9, 10, size=(5, 3))
    iref = (ref @ ipts.T.astype(float)).T
    worst = 0.0
    for form in (ipts, ipts.tolist(), [tuple(int(v) for v in row) for row in ipts], ipts.astype(np.int32), ipts.astype(float).tolist(), ipts[:1]):
        got = np.asarray(rotate_points(form, a, b, g), dtype=float)
        exp = iref[:len(got)]
        worst = max(worst, float(np.abs(got - exp).max()) / 9.0) if got.shape == exp.shape else np.inf
    resid["rotpts@int_forms"] = fnum(worst)
    f32 = np.asarray(rotate_points(ipts.astype(np.float32), a, b, g), dtype=float)
    resid["rotpts@float32"] = fnum(float(np.abs(f32 - iref).max()) / 9.0)
    one_i = np.asarray(rotate_points([int(v) for v in ipts[0]], a, b, g), dtype=float)
    resid["rotpts@int_forms"] = fnum(max(resid["rotpts@int_forms"], float(np.abs(one_i - iref[0]).max()) / 9.0))
    return {"resid": resid, "flags": flags, "angles": [a, b, g]}


def _leaves(s):
    from holopy.scattering.scatterer import Scatterers
    if isinstance(s, Scatterers):
        out = []
        for m in s.scatterers:
            out += _leaves(m)
        return out
    return [s]


def _run_comp(case):
    from holopy.scattering import Sphere, Spheres, Scatterers
    from holopy.scattering.scatterer import RigidCluster
    from vf.monitors import digest
    rng = rng_for(*case["seed"])
    n = case["nmem"]
    scale = float(loguniform(rng, 1e-3, 1e3))
    cen = rng.normal(size=(n, 3)) * scale * 3
    rad = rng.uniform(0.05, 0.3, n) * scale
    sph = [Sphere(n=1.5 + 0.1 * i, r=float(rad[i]), center=[float(v) for v in cen[i]]) for i in range(n)]
    ang = [float(v) for v in rng.uniform(-TWO_PI, TWO_PI, 3)]
    t = [float(v) for v in rng.normal(size=3) * scale * 5]
    if case.get("lattice"):
        # members on an integer lattice, rotation about ONE lab axis (or none): the displacement of a member then has
        # exactly-zero components, which the member translation must treat as numbers like any other
        scale = 1.0
        cen = rng.integers(-4, 5, size=(n, 3)).astype(float)
        cen += -np.round(cen.mean(0))
        rad = rng.uniform(0.05, 0.3, n)
        sph = [Sphere(n=1.5 + 0.1 * i, r=float(rad[i]), center=[float(v) for v in cen[i]]) for i in range(n)]
        b = [math.pi / 3, math.pi / 2, math.pi, float(rng.uniform(0.1, 3.0))][int(rng.integers(0, 4))]
        ang = [[0.0, b, 0.0], [b, 0.0, 0.0], [0.0, 0.0, b], [0.0, 0.0, 0.0], [0, b, 0]][case["lattice"] - 1]
        t = [float(v) for v in rng.integers(-3, 4, 3)]
    shape = case["shape"]
    resid, flags = {}, {}
    Rref = _Rz(ang[2]) @ _Ry(ang[1]) @ _Rz(ang[0])
    if shape == "rigid":
        base = Spheres(sph, warn=False)
        rc = RigidCluster(base, translation=tuple(t), rotation=tuple(ang))
        got = np.array([s.center for s in rc.scatterers], dtype=float)
        com = cen.mean(0)
        exp = com + (Rref @ (cen - com).T).T + np.array(t)
        resid["rigid_pos"] = fnum(np.abs(got - exp).max() / (np.abs(exp).max() + scale))
        d0 = np.linalg.norm(cen[:, None] - cen[None], axis=-1)
        d1 = np.linalg.norm(got[:, None] - got[None], axis=-1)
        resid["pair_rot"] = fnum(np.abs(d0 - d1).max() / scale)
        resid["centroid_tr"] = fnum(np.abs(got.mean(0) - (com + t)).max() / (np.abs(com + t).max() + scale))
        flags["radii_kept"] = bool(np.array_equal([s.r for s in rc.scatterers], rad))
        fp = rc.from_parameters(rc.parameters)
        got2 = np.array([s.center for s in fp.scatterers], dtype=float)
        resid["rigid_pos@from_parameters"] = fnum(np.abs(got2 - exp).max() / (np.abs(exp).max() + scale))
        return {"resid": resid, "flags": flags, "shape": shape, "n": n}
    if shape == "csg":
        # two-member union: HoloPy's documented pivot for shape algebra is the FIRST member's centre
        from holopy.scattering.scatterer import Union
        a0, b0 = sph[0], (sph[1] if n > 1 else Sphere(n=1.5, r=float(rad[0]), center=[float(v) for v in cen[0] + scale]))
        b0 = Sphere(n=a0.n, r=b0.r, center=b0.center)
        u = Union(a0, b0)
        before = digest(u)
        ur = u.rotated(*ang)
        c0 = np.array([a0.center, b0.center], dtype=float)
        c1 = np.array([ur.s1.center, ur.s2.center], dtype=float)
        exp = c0[0] + (Rref @ (c0 - c0[0]).T).T
        resid["rigid_pos"] = fnum(np.abs(c1 - exp).max() / (np.abs(exp).max() + scale))
        resid["pair_rot"] = fnum(abs(np.linalg.norm(c1[0] - c1[1]) - np.linalg.norm(c0[0] - c0[1])) / scale)
        ut = u.translated(*t)
        c2 = np.array([ut.s1.center, ut.s2.center], dtype=float)
        resid["rigid_pos@translated"] = fnum(np.abs(c2 - (c0 + t)).max() / (np.abs(c0).max() + np.abs(t).max() + 1e-300))
        flags["original_untouched"] = bool(digest(u) == before)
        # the union's own centre (its pivot) moves with it, so that a translation FOLLOWED by a rotation is the rotation about the moved
        # pivot; and the union as a member of a composite is moved and turned like any other member
        flags["centre_follows_translation"] = bool(np.allclose(np.asarray(ut.center, dtype=float), c0[0] + t, rtol=1e-13, atol=1e-13 * scale))
        utr = ut.rotated(*ang)
        c3 = np.array([utr.s1.center, utr.s2.center], dtype=float)
        piv = c0[0] + t
        exp3 = piv + (Rref @ ((c0 + t) - piv).T).T
        resid["rigid_pos@translated_then_rotated"] = fnum(np.abs(c3 - exp3).max() / (np.abs(exp3).max() + scale))
        extra = Sphere(n=1.4, r=float(rad[0]), center=[float(v) for v in cen[0] - 2 * scale])
        comp_ = Scatterers([u, extra])
        moved = comp_.translated(t)
        top = np.array([np.asarray(m_.center, dtype=float) for m_ in moved.scatterers])
        want = np.array([c0[0] + t, np.asarray(extra.center, dtype=float) + t])
        resid["rigid_pos@composite_with_union"] = fnum(np.abs(top - want).max() / (np.abs(want).max() + scale))
        turned = moved.rotated(*ang)
        com = want.mean(0)
        want_r = com + (Rref @ (want - com).T).T
        top_r = np.array([np.asarray(m_.center, dtype=float) for m_ in turned.scatterers])
        resid["rigid_pos@composite_with_union"] = fnum(max(resid["rigid_pos@composite_with_union"], np.abs(top_r - want_r).max() / (np.abs(want_r).max() + scale)))
        # ... down to its primitive parts: every part of the union turns rigidly with the rest (the union may sit anywhere in the list
        # and inside a nested collection)
        for tag, build, pick in (("first", lambda: Scatterers([u, extra]), lambda c_: (c_.scatterers[0], c_.scatterers[1])),
                                 ("last", lambda: Scatterers([extra, u]), lambda c_: (c_.scatterers[1], c_.scatterers[0])),
                                 ("nested", lambda: Scatterers([extra, Scatterers([u])]), lambda c_: (c_.scatterers[1].scatterers[0], c_.scatterers[0]))):
            cmp0 = build()
            un0, ex0 = pick(cmp0)
            parts0 = np.array([un0.s1.center, un0.s2.center, ex0.center], dtype=float)
            tops0 = np.array([np.asarray(m_.center, dtype=float) for m_ in cmp0.scatterers])
            piv0 = tops0.mean(0)
            cmp1 = cmp0.rotated(*ang)
            un1, ex1 = pick(cmp1)
            parts1 = np.array([un1.s1.center, un1.s2.center, ex1.center], dtype=float)
            dd0 = np.linalg.norm(parts0[:, None] - parts0[None], axis=-1)
            dd1 = np.linalg.norm(parts1[:, None] - parts1[None], axis=-1)
            resid["pair_rot@union_parts_%s" % tag] = fnum(np.abs(dd0 - dd1).max() / scale)
            if tag != "nested":
                wantp = piv0 + (Rref @ (parts0 - piv0).T).T
                resid["rigid_pos@union_parts_%s" % tag] = fnum(np.abs(parts1 - wantp).max() / (np.abs(wantp).max() + scale))
        return {"resid": resid, "flags": flags, "shape": shape, "n": 2}
    if shape == "nested3" and n >= 3:
        # three levels, unbalanced: [A, [B, [C, D, ...]]]
        comp = Scatterers([sph[0], Scatterers([sph[1], Scatterers(sph[2:])])])
    elif shape == "spheres" or shape == "nested3":
        comp = Spheres(sph, warn=False)
    elif shape == "scatterers":
        comp = Scatterers(sph)
    else:  # nested: first k in a sub-collection
        k = max(1, n // 2)
        inner = Spheres(sph[:k], warn=False)
        comp = Scatterers([inner] + sph[k:])
    before = digest(comp)
    leaves0 = np.array([s.center for s in _leaves(comp)], dtype=float)
    top0 = np.array([np.asarray(s.center, dtype=float) for s in comp.scatterers])
    d0 = np.linalg.norm(leaves0[:, None] - leaves0[None], axis=-1)
    rot = comp.rotated(*ang)
    rot_b = comp.rotated(tuple(ang))
    leaves1 = np.array([s.center for s in _leaves(rot)], dtype=float)
    leaves1b = np.array([s.center for s in _leaves(rot_b)], dtype=float)
    resid["rot3"] = fnum(np.abs(leaves1 - leaves1b).max())
    d1 = np.linalg.norm(leaves1[:, None] - leaves1[None], axis=-1)
    resid["pair_rot"] = fnum(np.abs(d0 - d1).max() / scale)
    top1 = np.array([np.asarray(s.center, dtype=float) for s in rot.scatterers])
    resid["centroid_rot"] = fnum(np.abs(top1.mean(0) - top0.mean(0)).max() / (np.abs(top0).max() + scale))
    com = top0.mean(0)
    exp = com + (Rref @ (leaves0 - com).T).T
    resid["rigid_pos"] = fnum(np.abs(leaves1 - exp).max() / (np.abs(exp).max() + scale))
    if case["seed"][-1] % 3 == 0:      # zero / integer components are translations too
        t = [t[0], 0, t[2]] if case["seed"][-1] % 2 else [0, t[1], 0.0]
    tr = comp.translated(t)
    tr_b = comp.translated(*t)
    l2 = np.array([s.center for s in _leaves(tr)], dtype=float)
    l2b = np.array([s.center for s in _leaves(tr_b)], dtype=float)
    resid["tr3"] = fnum(np.abs(l2 - l2b).max())
    d2 = np.linalg.norm(l2[:, None] - l2[None], axis=-1)
    resid["pair_tr"] = fnum(np.abs(d0 - d2).max() / scale)
    resid["centroid_tr"] = fnum(np.abs(l2.mean(0) - (leaves0.mean(0) + t)).max() / (np.abs(leaves0).max() + np.abs(t).max()))
    resid["rigid_pos@translated"] = fnum(np.abs(l2 - (leaves0 + t)).max() / (np.abs(leaves0).max() + np.abs(t).max()))
    flags["original_untouched"] = bool(digest(comp) == before)
    flags["count_kept"] = bool(len(leaves1) == len(leaves0) == len(l2))
    flags["radii_kept"] = bool(np.array_equal([s.r for s in _leaves(rot)], [s.r for s in _leaves(comp)]) and
                               np.array_equal([s.r for s in _leaves(tr)], [s.r for s in _leaves(comp)]))
    flags["type_kept"] = bool(type(rot) is type(comp) and type(tr) is type(comp))
    # a rigid cluster is a composite like any other: translating / rotating it moves the spheres it stands for (F101)
    try:
        rc = RigidCluster(Spheres(sph, warn=False), translation=[float(v) for v in rng.normal(size=3) * scale], rotation=[float(v) for v in rng.uniform(-3, 3, 3)])
        base_c = np.array([s_.center for s_ in rc.scatterers], dtype=float)
        moved = np.array([s_.center for s_ in rc.translated(t).scatterers], dtype=float)
        turned = rc.rotated(ang)
        tc = np.array([s_.center for s_ in turned.scatterers], dtype=float)
        comr = base_c.mean(0)
        expr = comr + (Rref @ (base_c - comr).T).T
        resid["rigid_cluster_moves_like_its_spheres"] = fnum(max(float(np.abs(moved - (base_c + t)).max() / (np.abs(base_c).max() + np.abs(t).max())),
                                                                 float(np.abs(tc - expr).max() / (np.abs(expr).max() + scale))))
    except Exception:
        flags["rigid_cluster_can_be_moved"] = False
    return {"resid": resid, "flags": flags, "shape": shape, "n": n}


# ------------------------------------------------------------------ oracle (parent)

def judge(case, obs):
    out = []
    for k, v in obs["resid"].items():
        base = k.split("@")[0]
        tol = TOL[base]
        if not v <= tol:
            out.append({"mech": "%s.%s" % (case["kind"], k), "detail": "%s=%.3e > %.1e" % (k, v, tol)})
    for k, v in obs["flags"].items():
        if not v:
            out.append({"mech": "%s.flag.%s" % (case["kind"], k), "detail": "flag %s false" % k})
    return out


def nontrivial(case, obs):
    return len(obs.get("resid", {})) > 0
