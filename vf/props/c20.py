"""C20 Scatterer containment, layers and overlaps match the analytic shapes."""
import itertools
import math
import warnings

import numpy as np

from ..util import rng_for, fnum, loguniform

NEEDS_FORTRAN = False
INSTALL_MONITORS = False
LEVEL_TEXT = ("Runtime monitoring: contains / in_domain / index_at / bounds / voxelate / translated of spheres, layered "
              "spheres, ellipsoids and all sphere|ellipsoid pairs under Union/Difference/Intersection, and Spheres "
              "overlaps / largest_overlap / construction warnings / rejections, are executed on generated shapes with "
              "query clouds plus points (1 +- 1e-9) x surface; the oracle evaluates the analytic inequality itself. "
              "Held = held on the executions in the evidence.")
LEVEL_NOTE = "Trusted: numpy; the checker's analytic inequalities and sphere-lens volume formula. Exact-surface points only where the comparison is unambiguous in floating point."
TECHNIQUE = "runtime monitoring: generated shapes and query points through the real methods, analytic-inequality oracle; warnings monitor around constructors"
RULE = ("prim: random sphere / 1-4 layer sphere (radii or thickness form) / ellipsoid, 400 cloud points + near-surface "
        "points on both sides; csg: every ordered pair of {sphere, ellipsoid} x {Union, Difference, Intersection}; "
        "voxel: volumes at 3 spacings; spheres: collections of 1-8 members incl. exactly touching, nested, concentric, "
        "layered members, near-touching at (1+-1e-9), index_at of the owning member; integer-typed sizes and centres; reject: malformed inputs (sets, nan). non-trivial = the analytic oracle "
        "classified >=1 query point inside and >=1 outside (or >=1 pair for collections); distinct by rounded case JSON")
ASSUMPTIONS = ["containment is the strict inequality the indicator functions define",
               "largest_overlap may floor at 0 for non-overlapping collections (documented behaviour)"]
MIN_NONTRIVIAL = 10


def cases(tier, seed):
    out = []
    n = 50 if tier == "quick" else 1500
    kinds = ["sphere", "layered_r", "layered_t", "ellipsoid"]
    for i in range(n * 4):
        out.append({"id": "prim-%d" % i, "kind": "prim", "shape": kinds[i % 4], "seed": [seed, "prim", i],
                    "layers": 1 + (i // 4) % 4})
    ops = ["Union", "Difference", "Intersection"]
    pairs = list(itertools.product(["sphere", "ellipsoid"], repeat=2))
    k = 0
    for rep in range(max(1, n // 3)):
        for op in ops:
            for a, b in pairs:
                out.append({"id": "csg-%d" % k, "kind": "csg", "op": op, "a": a, "b": b, "seed": [seed, "csg", k]})
                k += 1
    for i in range(max(6, n // 2)):
        out.append({"id": "voxel-%d" % i, "kind": "voxel", "shape": ["sphere", "ellipsoid", "Union", "Difference", "Intersection", "layered_r"][i % 6],
                    "seed": [seed, "voxel", i], "cost": 4})
    for i in range(n * 4):
        out.append({"id": "spheres-%d" % i, "kind": "spheres", "seed": [seed, "spheres", i], "nmem": 1 + i % 8,
                    "flavor": ["random", "touching", "nested", "near", "layered", "concentric"][(i // 8) % 6], "warn": bool((i // 3) % 2)})
    # points exactly on the surface (representable: Pythagorean quadruples around integer centres): strictly outside
    for i in range(max(4, n // 4)):
        out.append({"id": "exact-%d" % i, "kind": "exact", "seed": [seed, "exact", i]})
    out.append({"id": "reject-0", "kind": "reject"})
    return out


def _dirs(rng, n):
    u = rng.normal(size=(n, 3))
    return u / np.linalg.norm(u, axis=1, keepdims=True)


def _make_prim(shape, rng, layers=1, n_index=None):
    from holopy.scattering.scatterer import Sphere, LayeredSphere, Ellipsoid
    scale = float(loguniform(rng, 1e-3, 1e3))
    c = rng.normal(size=3) * scale * 2
    ints = shape in ("sphere", "ellipsoid") and rng.random() < 0.2
    if ints:
        # sizes and positions written as whole numbers (Python ints, integer arrays): the same geometry as the floats
        scale = 1.0
        form = int(rng.integers(0, 4))
        wrap = [lambda v: tuple(int(x) for x in v), lambda v: [int(x) for x in v], lambda v: np.asarray(v, dtype=np.int64), lambda v: np.asarray(v, dtype=np.int32)][form]
        ci = rng.integers(-4, 5, 3)
        n = n_index if n_index is not None else 1.2 + float(rng.uniform(0, 1))
        if shape == "sphere":
            ri = int(rng.integers(1, 5))
            return Sphere(n=n, r=[ri, np.int64(ri), np.int32(ri), ri][form], center=wrap(ci)), {"type": "sphere", "c": ci.astype(float), "r": [float(ri)], "n": [n], "scale": scale}
        ri = rng.integers(1, 6, 3)
        return Ellipsoid(n=n, r=wrap(ri), center=wrap(ci)), {"type": "ellipsoid", "c": ci.astype(float), "r": ri.astype(float), "n": [n], "scale": scale}
    if shape == "sphere":
        r = float(rng.uniform(0.2, 1.5) * scale)
        n = n_index if n_index is not None else 1.2 + float(rng.uniform(0, 1))
        return Sphere(n=n, r=r, center=tuple(c)), {"type": "sphere", "c": c, "r": [r], "n": [n], "scale": scale}
    if shape in ("layered_r", "layered_t"):
        t = rng.uniform(0.1, 0.6, layers) * scale
        r = np.cumsum(t)
        n = [complex(1.2 + 0.1 * i, 0.01 * (i % 2)) if i % 2 else 1.2 + 0.1 * i for i in range(layers)]
        if shape == "layered_r":
            if layers == 1:
                s = Sphere(n=n[0], r=float(r[0]), center=tuple(c))
            else:
                s = Sphere(n=tuple(n), r=tuple(float(v) for v in r), center=tuple(c))
        else:
            s = LayeredSphere(n=tuple(n), t=tuple(float(v) for v in t), center=tuple(c))
        return s, {"type": "sphere", "c": c, "r": [float(v) for v in np.cumsum(np.asarray(t))] if shape == "layered_t" else [float(v) for v in r], "n": n, "scale": scale}
    if shape == "ellipsoid":
        r = rng.uniform(0.2, 1.5, 3) * scale
        n = n_index if n_index is not None else 1.2 + float(rng.uniform(0, 1))
        return Ellipsoid(n=n, r=tuple(float(v) for v in r), center=tuple(c)), {"type": "ellipsoid", "c": c, "r": r, "n": [n], "scale": scale}
    raise ValueError(shape)


def _analytic_domain(desc, P):
    """domain number (0 = outside) from the analytic inequality."""
    c = np.asarray(desc["c"], dtype=float)
    if desc["type"] == "sphere":
        d2 = ((P - c) ** 2).sum(-1)
        dom = np.zeros(P.shape[:-1], dtype=int)
        for i, ri in reversed(list(enumerate(desc["r"]))):
            dom[d2 < ri ** 2] = i + 1
        return dom
    q = (((P - c) / np.asarray(desc["r"])) ** 2).sum(-1)
    return (q < 1).astype(int)


def _queries(desc, rng, ncloud=400, nsurf=60):
    c = np.asarray(desc["c"], dtype=float)
    rmax = float(np.max(desc["r"]))
    cloud = c + rng.uniform(-1.3, 1.3, size=(ncloud, 3)) * rmax
    pts = [cloud]
    for eps in (1e-9, -1e-9, 1e-6, -1e-6):
        u = _dirs(rng, nsurf)
        if desc["type"] == "sphere":
            for ri in desc["r"]:
                pts.append(c + u * ri * (1 + eps))
        else:
            pts.append(c + u * np.asarray(desc["r"]) * (1 + eps))
    return np.concatenate(pts)


def run_case(case):
    return globals()["_run_" + case["kind"]](case)


def _bounds_ok(bounds, P_in, slack):
    b = np.array([[float(lo), float(hi)] for lo, hi in bounds])
    if len(P_in) == 0:
        return True
    return bool(np.all(P_in >= b[:, 0] - slack) and np.all(P_in <= b[:, 1] + slack))


def _run_prim(case):
    rng = rng_for(*case["seed"])
    s, desc = _make_prim(case["shape"], rng, case.get("layers", 1))
    P = _queries(desc, rng)
    exp = _analytic_domain(desc, P)
    flags = {}
    dom = s.in_domain(P)
    flags["in_domain"] = bool(np.array_equal(dom, exp))
    flags["contains"] = bool(np.array_equal(s.contains(P), exp > 0))
    bg = 1.33
    ns = np.array([bg] + list(desc["n"]))
    flags["index_at"] = bool(np.array_equal(s.index_at(P, background=bg), ns[exp]))
    flags["index_at_default_bg"] = bool(np.array_equal(s.index_at(P), np.array([0] + list(desc["n"]))[exp]))
    one = s.in_domain(P[0])
    flags["single_point"] = bool(np.shape(one) == (1,) and one[0] == exp[0])
    flags["bounds"] = _bounds_ok(s.bounds, P[exp > 0], 0.0)
    # analytic extent inside the box
    c = np.asarray(desc["c"]); rr = np.asarray(desc["r"] if desc["type"] == "ellipsoid" else [max(desc["r"])] * 3)
    b = np.array([[float(lo), float(hi)] for lo, hi in s.bounds])
    tolb = 1e-12 * (np.abs(c).max() + rr.max())
    flags["bounds_cover_extent"] = bool(np.all(b[:, 0] <= c - rr + tolb) and np.all(b[:, 1] >= c + rr - tolb))
    t = rng.normal(size=3) * desc["scale"]
    # translation by a vector whose addition is exact enough: compare with analytic at translated centre
    st = s.translated(t)
    d2 = dict(desc); d2["c"] = np.asarray(s.center) + t
    Pt = _queries(d2, rng, 200, 30)
    flags["translated"] = bool(np.array_equal(st.in_domain(Pt), _analytic_domain(d2, Pt)))
    st3 = s.translated(*[float(v) for v in t])
    flags["translated_3args"] = bool(np.array_equal(st3.in_domain(Pt), _analytic_domain(d2, Pt)))
    flags["original_not_moved"] = bool(np.array_equal(np.asarray(s.center), c))
    # translations with zero / integer components, both call forms (a zero component is not "no argument")
    a_, b_, c_ = [float(v) for v in rng.normal(size=3) * desc["scale"]]
    okz = True
    for tz in [(a_, 0, 0), (0, b_, 0), (0, 0, c_), (a_, 0.0, c_), (0, 0, 0), (a_, b_, 0), (0.0, b_, c_), (2, 0, -1)]:
        for form in ("args", "vector"):
            stz = s.translated(*tz) if form == "args" else s.translated(np.array(tz, dtype=float))
            dz = dict(desc); dz["c"] = np.asarray(s.center, dtype=float) + np.array(tz, dtype=float)
            Pz = _queries(dz, rng, 60, 10)
            if not np.array_equal(stz.in_domain(Pz), _analytic_domain(dz, Pz)):
                okz = False
                flags["translated_zero_component@%s" % form] = False
    flags["translated_zero_component"] = okz
    return {"flags": flags, "n_in": int((exp > 0).sum()), "n_out": int((exp == 0).sum()), "shape": case["shape"], "resid": {}}


def _run_csg(case):
    from holopy.scattering.scatterer import Union, Difference, Intersection
    rng = rng_for(*case["seed"])
    nidx = 1.2 + float(rng.uniform(0, 1))
    a, da = _make_prim(case["a"], rng, n_index=nidx)
    b, db = _make_prim(case["b"], rng, n_index=nidx)
    # bring b close to a so that the shapes interact
    off = _dirs(rng, 1)[0] * float(np.max(da["r"])) * rng.uniform(0.2, 1.2)
    scale_b = float(np.max(da["r"]) / np.max(db["r"]) * rng.uniform(0.5, 1.5))
    db["r"] = [float(v) * scale_b for v in np.atleast_1d(db["r"])]
    db["c"] = np.asarray(da["c"]) + off
    from holopy.scattering.scatterer import Sphere, Ellipsoid
    if case["b"] == "sphere":
        b = Sphere(n=nidx, r=db["r"][0], center=tuple(db["c"]))
    else:
        b = Ellipsoid(n=nidx, r=tuple(db["r"]), center=tuple(db["c"]))
        db["r"] = np.asarray(db["r"])
    C = {"Union": Union, "Difference": Difference, "Intersection": Intersection}[case["op"]]
    comb = {"Union": lambda x, y: x | y, "Difference": lambda x, y: x & ~y, "Intersection": lambda x, y: x & y}[case["op"]]
    flags = {}
    c = C(a, b)
    P = np.concatenate([_queries(da, rng, 300, 40), _queries(db, rng, 300, 40)])
    exp = comb(_analytic_domain(da, P) > 0, _analytic_domain(db, P) > 0)
    flags["contains"] = bool(np.array_equal(np.asarray(c.contains(P)), exp))
    flags["in_domain_truthy"] = bool(np.array_equal(np.asarray(c.in_domain(P)) > 0, exp))
    flags["index_at"] = bool(np.array_equal(c.index_at(P, background=1.0), np.where(exp, nidx, 1.0)))
    flags["bounds"] = _bounds_ok(c.bounds, P[exp], 0.0)
    t = rng.normal(size=3) * da["scale"]
    ct = c.translated(t)
    da2 = dict(da); da2["c"] = np.asarray(a.center) + t
    db2 = dict(db); db2["c"] = np.asarray(b.center) + t
    Pt = np.concatenate([_queries(da2, rng, 200, 30), _queries(db2, rng, 200, 30)])
    expt = comb(_analytic_domain(da2, Pt) > 0, _analytic_domain(db2, Pt) > 0)
    flags["translated"] = bool(np.array_equal(np.asarray(ct.contains(Pt)), expt))
    ct3 = c.translated(*[float(v) for v in t])
    flags["translated_3args"] = bool(np.array_equal(np.asarray(ct3.contains(Pt)), expt))
    flags["translated_bounds"] = _bounds_ok(ct.bounds, Pt[expt], 0.0)
    flags["original_not_moved"] = bool(np.array_equal(np.asarray(c.contains(P)), exp))
    return {"flags": flags, "n_in": int(exp.sum()), "n_out": int((~exp).sum()), "resid": {}}


QUADS = [(1, 2, 2, 3), (2, 3, 6, 7), (1, 4, 8, 9), (4, 4, 7, 9), (2, 6, 9, 11), (6, 6, 7, 11), (3, 4, 12, 13), (2, 10, 11, 15), (0, 3, 4, 5), (0, 5, 12, 13)]


def _run_exact(case):
    """|p - c|^2 == r^2 exactly in floating point: the indicator is the strict inequality, so the point is outside;
    the next representable radius above puts it inside."""
    from holopy.scattering.scatterer import Sphere, Ellipsoid, Union
    rng = rng_for(*case["seed"])
    flags = {}
    n_in = n_out = 0
    for a, b, c_, r in QUADS:
        sc = float(2.0 ** int(rng.integers(-3, 4)))        # power-of-two scaling keeps everything exact
        cen = np.array([float(rng.integers(-5, 6)), float(rng.integers(-5, 6)), float(rng.integers(-5, 6))]) * sc
        perm = rng.permutation(3)
        signs = rng.choice([-1.0, 1.0], 3)
        v = np.array([a, b, c_], dtype=float)[perm] * signs * sc
        P = np.array([cen + v, cen - v])
        s = Sphere(n=1.5, r=r * sc, center=tuple(cen))
        on = s.contains(P)
        s_big = Sphere(n=1.5, r=float(np.nextafter(r * sc, np.inf)), center=tuple(cen))
        s_small = Sphere(n=1.5, r=float(np.nextafter(r * sc, 0)), center=tuple(cen))
        flags["surface_point_outside@%d" % r] = bool(not on.any())
        flags["just_larger_contains@%d" % r] = bool(s_big.contains(P).all())
        flags["just_smaller_excludes@%d" % r] = bool(not s_small.contains(P).any())
        lay = Sphere(n=(1.5, 1.4), r=(r * sc, 2 * r * sc), center=tuple(cen))
        flags["layer_boundary_belongs_to_outer@%d" % r] = bool(np.array_equal(lay.in_domain(P), [2, 2]))
        # (no exact-surface claim for Ellipsoid: its test divides by the semi-axes first, which rounds)
        n_out += 2; n_in += 2
    return {"flags": flags, "resid": {}, "n_in": n_in, "n_out": n_out}


def _lens_volume(r1, r2, d):
    if d >= r1 + r2:
        return 0.0
    if d <= abs(r1 - r2):
        return 4 / 3 * math.pi * min(r1, r2) ** 3
    return math.pi * (r1 + r2 - d) ** 2 * (d * d + 2 * d * (r1 + r2) - 3 * (r1 - r2) ** 2) / (12 * d)


def _run_voxel(case):
    from holopy.scattering.scatterer import Sphere, Ellipsoid, Union, Difference, Intersection
    rng = rng_for(*case["seed"])
    shape = case["shape"]
    resid, flags = {}, {}
    if shape in ("sphere", "ellipsoid", "layered_r"):
        s, d = _make_prim(shape, rng, layers=3)
        if shape == "ellipsoid":
            vol = 4 / 3 * math.pi * float(np.prod(d["r"])); size = float(np.min(d["r"]))
        else:
            vol = 4 / 3 * math.pi * max(d["r"]) ** 3; size = max(d["r"])
    else:
        a, da = _make_prim("sphere", rng, n_index=1.5)
        r2 = da["r"][0] * float(rng.uniform(0.5, 1.0))
        dist = float(rng.uniform(0.3, 1.2)) * da["r"][0]
        u = _dirs(rng, 1)[0]
        b = Sphere(n=1.5, r=r2, center=tuple(np.asarray(da["c"]) + u * dist))
        s = {"Union": Union, "Difference": Difference, "Intersection": Intersection}[shape](a, b)
        v1, v2, vi = 4 / 3 * math.pi * da["r"][0] ** 3, 4 / 3 * math.pi * r2 ** 3, _lens_volume(da["r"][0], r2, dist)
        vol = {"Union": v1 + v2 - vi, "Difference": v1 - vi, "Intersection": vi}[shape]
        size = r2
    errs = []
    for div in (8, 16, 32):
        sp = size / div
        v = s.voxelate(sp)
        est = float((np.asarray(v) != 0).sum()) * sp ** 3
        errs.append(abs(est - vol) / (4 / 3 * math.pi * size ** 3))
        dom = s.voxelate_domains(sp)
        flags["domains_consistent@%d" % div] = bool(np.array_equal(np.asarray(dom) > 0, np.asarray(v) != 0))
    resid["vox8"], resid["vox16"], resid["vox32"] = [fnum(e) for e in errs]
    return {"flags": flags, "resid": resid, "n_in": 1, "n_out": 1, "shape": shape}


def _run_spheres(case):
    from holopy.scattering.scatterer import Sphere, Spheres
    from holopy.scattering.errors import OverlapWarning
    rng = rng_for(*case["seed"])
    n, fl = case["nmem"], case["flavor"]
    cen, rad = [], []
    if fl == "touching":
        # exactly representable: integer-ish radii on a lattice line
        x = 0.0
        for i in range(n):
            r = float(rng.integers(1, 5)) * 0.25
            if i:
                x += rad[-1] + r
            cen.append([x, 0.0, 0.0]); rad.append(r)
        sh = np.array([float(rng.integers(-8, 8)) * 0.5 for _ in range(3)])
        cen = [list(np.array(c) + sh) for c in cen]
    elif fl == "nested":
        c0 = rng.normal(size=3)
        for i in range(n):
            rad.append(float(2.0 / (i + 1))); cen.append(list(c0 + rng.normal(size=3) * 0.01))
    elif fl == "concentric":
        c0 = list(rng.normal(size=3))
        for i in range(n):
            rad.append(float(rng.uniform(0.1, 1))); cen.append(list(c0))
    elif fl == "near":
        x = 0.0
        u = _dirs(rng, 1)[0]
        for i in range(n):
            r = float(rng.uniform(0.2, 1.0))
            if i:
                x += (rad[-1] + r) * (1 + (1e-9 if rng.random() < 0.5 else -1e-9))
            cen.append(list(u * x)); rad.append(r)
    else:
        for i in range(n):
            rad.append(float(rng.uniform(0.2, 1.0))); cen.append(list(rng.uniform(-2, 2, 3)))
    members = []
    outer = []
    for i in range(n):
        if fl == "layered" and i % 2 == 0:
            members.append(Sphere(n=(1.5, 1.4), r=(rad[i] * 0.5, rad[i]), center=tuple(cen[i])))
        else:
            members.append(Sphere(n=1.5 + 0.01 * i, r=rad[i], center=tuple(cen[i])))
        outer.append(rad[i])
    cen = np.array(cen, dtype=float)
    exp_pairs, margins = [], []
    for i in range(n):
        for j in range(i + 1, n):
            d = math.sqrt(float(((cen[i] - cen[j]) ** 2).sum()))
            margins.append((outer[i] + outer[j]) - d)
            if d < outer[i] + outer[j]:
                exp_pairs.append((i, j))
    flags = {}
    with warnings.catch_warnings(record=True) as w:
        warnings.simplefilter("always")
        S = Spheres(members, warn=case["warn"])
    nwarn = sum(1 for x in w if isinstance(x.message, OverlapWarning))
    flags["warning_iff_overlap_and_warn"] = bool((nwarn >= 1) == (bool(exp_pairs) and case["warn"]))
    flags["overlaps"] = bool([tuple(p) for p in S.overlaps] == exp_pairs)
    lo = S.largest_overlap()
    m = max(margins) if margins else 0.0
    flags["largest_overlap"] = bool(lo == max(0.0, m) or (margins and lo == m))
    # containment of the collection = union of members
    P = np.concatenate([c + rng.uniform(-1.2, 1.2, (40, 3)) * r for c, r in zip(cen, outer)])
    exp = np.zeros(len(P), dtype=bool)
    for c, r in zip(cen, outer):
        exp |= ((P - c) ** 2).sum(1) < r ** 2
    flags["contains_union"] = bool(np.array_equal(S.contains(P), exp))
    # the refractive index at a point inside exactly one member is that member's (whichever place it has in the list), outside all: background
    inside = np.array([((P - c) ** 2).sum(1) < r ** 2 for c, r in zip(cen, outer)])
    ok_idx, n_idx = True, 0
    for j in range(min(len(P), 60)):
        owners = np.nonzero(inside[:, j])[0]
        if len(owners) > 1:
            continue
        got = S.index_at(P[j])
        want = members[int(owners[0])].index_at(P[j]) if len(owners) else np.array([0.0])
        n_idx += 1
        ok_idx &= bool(got is not None and np.array_equal(np.asarray(got).ravel(), np.asarray(want).ravel()))
    if n_idx:
        flags["index_at_is_the_owning_members"] = ok_idx
    # default warn is True
    if case["warn"]:
        with warnings.catch_warnings(record=True) as w2:
            warnings.simplefilter("always")
            Spheres(members)
        flags["default_warns"] = bool((sum(1 for x in w2 if isinstance(x.message, OverlapWarning)) >= 1) == bool(exp_pairs))
    return {"flags": flags, "n_pairs": len(margins), "n_overlap": len(exp_pairs), "flavor": fl, "resid": {},
            "n_in": len(exp_pairs) + 1, "n_out": 1}


def _run_reject(case):
    from holopy.scattering.scatterer import Sphere, Spheres, Ellipsoid, Spheroid, Cylinder, Scatterers
    from holopy.scattering.errors import InvalidScatterer
    flags = {}

    def rejects(f, *a, **k):
        try:
            f(*a, **k)
        except InvalidScatterer:
            return True
        except Exception:
            return False
        return False
    good = Sphere(n=1.5, r=1.0, center=(0, 0, 0))
    flags["neg_radius"] = rejects(Sphere, n=1.5, r=-1.0, center=(0, 0, 0))
    flags["neg_layer_radius"] = rejects(Sphere, n=(1.5, 1.4), r=(0.5, -1.0), center=(0, 0, 0))
    flags["neg_tiny_radius"] = rejects(Sphere, n=1.5, r=-1e-300, center=(0, 0, 0))
    flags["center_len2"] = rejects(Sphere, n=1.5, r=1.0, center=(0, 0))
    flags["center_len4"] = rejects(Sphere, n=1.5, r=1.0, center=(0, 0, 0, 0))
    flags["center_scalar"] = rejects(Sphere, n=1.5, r=1.0, center=5)
    # the layered sphere given by thicknesses gets the same checks as any other sphere
    from holopy.scattering.scatterer import LayeredSphere
    flags["layered_t_negative"] = rejects(LayeredSphere, n=[1.5, 1.4], t=[-0.5, 0.2], center=(0, 0, 0))
    flags["layered_t_center_len2"] = rejects(LayeredSphere, n=[1.5, 1.4], t=[0.5, 0.2], center=(1.0, 2.0))
    flags["layered_t_center_scalar"] = rejects(LayeredSphere, n=[1.5, 1.4], t=[0.5, 0.2], center=5.0)
    flags["layered_t_center_len4"] = rejects(LayeredSphere, n=[1.5, 1.4], t=[0.5, 0.2], center=(1.0, 2.0, 3.0, 4.0))
    # a centre is three numbers, not three lists
    flags["center_three_pairs"] = rejects(Sphere, n=1.5, r=1.0, center=[[1.0, 2.0], [3.0, 4.0], [5.0, 6.0]])
    flags["center_nested_arrays"] = rejects(Sphere, n=1.5, r=1.0, center=np.zeros((3, 2)))
    flags["ellipsoid_center_len2"] = rejects(Ellipsoid, n=1.5, r=(1, 1, 1), center=(0, 0))
    flags["ellipsoid_r_len2"] = rejects(Ellipsoid, n=1.5, r=(1, 1), center=(0, 0, 0))
    flags["spheres_with_ellipsoid"] = rejects(Spheres, [good, Ellipsoid(n=1.5, r=(1, 1, 1), center=(3, 3, 3))])
    flags["spheres_with_spheroid"] = rejects(Spheres, [good, Spheroid(n=1.5, r=(1, 1), center=(3, 3, 3))])
    flags["spheres_with_cylinder"] = rejects(Spheres, [Cylinder(n=1.5, h=1, d=1, center=(3, 3, 3))])
    flags["spheres_with_nested_spheres"] = rejects(Spheres, [good, Spheres([good])])
    flags["spheres_with_number"] = rejects(Spheres, [good, 3.0])
    S = Spheres([good])
    from vf.monitors import digest as _dg
    d_S = _dg(S)
    flags["add_nonsphere"] = rejects(S.add, Ellipsoid(n=1.5, r=(1, 1, 1), center=(3, 3, 3)))
    # ... and a refused member is not in the collection afterwards
    flags["refused_member_not_kept"] = bool(_dg(S) == d_S and len(S.scatterers) == 1 and S.overlaps == [] and S.largest_overlap() == 0)
    S4 = Spheres([Sphere(n=1.5, r=0.5, center=(2.0 * j, 0, 0)) for j in range(4)])
    rejects(S4.add, Ellipsoid(n=1.5, r=(1, 1, 1), center=(0.2, 0, 0)))
    flags["refused_member_not_kept"] &= bool(len(S4.scatterers) == 4 and all(isinstance(m_, Sphere) for m_ in S4.scatterers) and S4.overlaps == [])
    # accepted inputs stay accepted
    ok = True
    try:
        Sphere(n=1.5, r=0.0, center=(0, 0, 0)); Sphere(n=1.5, r=1.0, center=[1, 2, 3]); Sphere(n=1.5, r=1.0, center=np.array([1., 2, 3]))
        Spheres([good, Sphere(n=1.4, r=0.5, center=(5, 5, 5))])
        LayeredSphere(n=[1.5, 1.4], t=[0.5, 0.2], center=(0, 0, 1)); LayeredSphere(n=[1.5, 1.4], t=[0.5, 0.0], center=np.array([0., 0, 1]))
        LayeredSphere(n=[1.5, 1.4], t=[0.5, 0.2]); Sphere(n=1.5, r=1.0, center=(np.float64(1), 2, np.array(3.0)))
    except Exception:
        ok = False
    flags["valid_accepted"] = ok
    # ---- malformed centres of every kind (F91): a ragged one, a complex one, a missing one; priors and per-channel values stay legal
    from holopy.core.prior import Uniform
    flags["center_ragged"] = rejects(Sphere, n=1.5, r=1.0, center=(1, 2, [3, 4]))
    flags["center_complex"] = rejects(Sphere, n=1.5, r=1.0, center=(1j, 0, 0)) and rejects(Sphere, n=1.5, r=1.0, center=(np.complex128(1 + 1j), 0, 0))
    flags["center_none_component"] = rejects(Sphere, n=1.5, r=1.0, center=(None, 0, 0))
    flags["ellipsoid_negative_semi_axis"] = rejects(Ellipsoid, n=1.5, r=(-1, 1, 1), center=(0, 0, 0))           # (F97)
    # a centre is an ordered triple of numbers: a set has no order, nan is not a position; a radius is a number
    # three numbers in the wrong SHAPE are not a centre either: column vector, row matrix, nested lists, a mapping
    flags["centre_wrong_shape_rejected"] = bool(rejects(Sphere, n=1.5, r=1.0, center=np.array([[1.0], [2.0], [3.0]])) and rejects(Sphere, n=1.5, r=1.0, center=np.array([[1.0, 2.0, 3.0]]))
                                                and rejects(Sphere, n=1.5, r=1.0, center=[[1.0], [2.0], [3.0]]) and rejects(Ellipsoid, n=1.5, r=(1, 1, 1), center=np.ones((3, 1)))
                                                and rejects(LayeredSphere, n=[1.5, 1.4], t=[0.5, 0.2], center=np.ones((1, 3))) and rejects(Sphere, n=(1.5, 1.4), r=(0.5, 0.7), center=np.ones((3, 1, 1))))
    flags["centre_mapping_rejected"] = rejects(Sphere, n=1.5, r=1.0, center={0: 1.0, 1: 2.0, 2: 3.0})
    flags["centre_set_rejected"] = rejects(Sphere, n=1.5, r=1.0, center={1.0, 2.0, 3.0})
    flags["centre_nan_rejected"] = rejects(Sphere, n=1.5, r=1.0, center=(float("nan"), 0.0, 0.0)) and rejects(Sphere, n=1.5, r=1.0, center=np.array([0.0, np.nan, 0.0]))
    flags["radius_nan_rejected"] = rejects(Sphere, n=1.5, r=float("nan"), center=(0, 0, 0)) and rejects(Sphere, n=(1.5, 1.4), r=(0.5, float("nan")), center=(0, 0, 0))
    try:
        Sphere(n=1.5, r=1.0, center=(Uniform(0, 1), 2.0, Uniform(3, 4))); Sphere(n=1.5, r=1.0, center=({"red": 1.0, "green": 2.0}, 0, 0))
        Ellipsoid(n=1.5, r=(Uniform(0.5, 1), 1, 1), center=(0, 0, 0))
        flags["prior_and_channel_centres_accepted"] = True
    except Exception:
        flags["prior_and_channel_centres_accepted"] = False
    # ---- arguments of translated / rotated (F94)
    flags["translated_scalar_rejected"] = rejects(good.translated, 5)
    flags["translated_missing_component_rejected"] = rejects(good.translated, 1, None, 3)
    flags["translated_pair_rejected"] = rejects(good.translated, [1, 2])
    flags["translated_column_vector_rejected"] = rejects(good.translated, np.array([[1.0], [2.0], [3.0]])) and rejects(S.translated, np.array([[1.0], [2.0], [3.0]]))
    flags["composite_translated_scalar_rejected"] = rejects(S.translated, 5) and rejects(S.rotated, 0.3)
    # ---- a collection given as an iterator is the collection (F93)
    a, b = Sphere(n=1.5, r=1.0, center=(0, 0, 0)), Sphere(n=1.4, r=1.0, center=(1.2, 0, 0))
    import warnings
    with warnings.catch_warnings(record=True) as w:
        warnings.simplefilter("always")
        it = Spheres(iter([a, b]))
    try:
        flags["spheres_from_iterator"] = bool(len(it.scatterers) == 2 and abs(it.largest_overlap() - 0.8) < 1e-12 and len(it.overlaps) == 1 and any("verlap" in str(x.message) for x in w))
    except Exception:
        flags["spheres_from_iterator"] = False
    # ---- set operations (F95, F96, F98, F99)
    from holopy.scattering.scatterer import Union, Difference, Intersection, Capsule
    c = Sphere(n=1.5, r=1.0, center=(0, 1.1, 0))
    try:
        nested = Union(Union(a, Sphere(n=1.5, r=1.0, center=(1.2, 0, 0))), c)
        pts = np.array([[0, 0, 0], [1.2, 0.5, 0], [0, 1.9, 0], [5, 5, 5], [-0.9, -0.9, 0]], dtype=float)
        got = nested.contains(pts)
        exp = [True, True, True, False, False]
        flags["nested_union"] = bool(list(np.asarray(got, dtype=bool)) == exp)
    except Exception:
        flags["nested_union"] = False
    flags["union_with_layered_rejected"] = rejects(Union, Sphere(n=(1.5, 1.4), r=(0.5, 1.0), center=(0, 0, 0)), Sphere(n=1.5, r=1.0, center=(1, 0, 0)))
    try:
        cap = Capsule(n=1.5, h=2.0, d=1.0, center=(0, 0, 0), rotation=(0, 0, 0))
        cloud = np.random.default_rng(5).uniform(-2.2, 2.2, (400, 3))
        inside = np.asarray(cap.contains(cloud), dtype=bool)
        # capsule along z: cylinder of height h and radius d/2 with hemispherical caps
        rho = np.hypot(cloud[:, 0], cloud[:, 1]); zz = np.abs(cloud[:, 2])
        exp = np.where(zz <= 1.0, rho < 0.5, np.sqrt(rho ** 2 + (zz - 1.0) ** 2) < 0.5)
        margin = np.abs(np.where(zz <= 1.0, rho - 0.5, np.sqrt(rho ** 2 + (zz - 1.0) ** 2) - 0.5)) > 1e-9
        flags["capsule_point_cloud"] = bool(inside.shape == (400,) and np.array_equal(inside[margin], exp[margin]))
        capidx = cap.index_at(np.array([[0.0, 0.0, 1.3], [0.0, 0.0, 0.0], [0.0, 0.0, 3.0]]), 1.33)
        flags["capsule_caps_have_its_index"] = bool(capidx[0] == 1.5 and capidx[1] == 1.5 and capidx[2] == 1.33)
        u = Union(cap, Sphere(n=1.5, r=0.7, center=(0, 0, 1.6)))
        flags["capsule_in_set_operation"] = bool(np.asarray(u.contains(np.array([[0, 0, 2.2], [0, 0, 0.0], [0, 0, 3.0]], dtype=float)), dtype=bool).tolist() == [True, True, False])
    except Exception:
        flags["capsule_point_cloud"] = flags.get("capsule_point_cloud", False); flags["capsule_in_set_operation"] = False
    try:
        sph = Spheroid(n=1.5, r=(0.5, 1.0), center=(0, 0, 0), rotation=(0, 0, 0))
        cloud = np.random.default_rng(6).uniform(-1.2, 1.2, (300, 3))
        inside = np.asarray(sph.contains(cloud), dtype=bool)
        q = (cloud[:, 0] ** 2 + cloud[:, 1] ** 2) / 0.25 + cloud[:, 2] ** 2
        flags["spheroid_point_cloud"] = bool(inside.shape == (300,) and np.array_equal(inside[np.abs(q - 1) > 1e-9], (q < 1)[np.abs(q - 1) > 1e-9]))
    except Exception:
        flags["spheroid_point_cloud"] = False
    # ---- the exterior of a voxelation is the medium that was named (F92)
    try:
        vox = good.voxelate(0.5, 1.33)
        flags["voxelate_exterior_is_medium"] = bool(set(np.unique(vox).tolist()) == {1.33, 1.5})
    except Exception:
        flags["voxelate_exterior_is_medium"] = False
    return {"flags": flags, "resid": {}, "n_in": 1, "n_out": 1}


VOX_TOL = {"vox8": 0.4, "vox16": 0.15, "vox32": 0.05}


def judge(case, obs):
    out = []
    for k, v in obs["flags"].items():
        if not v:
            out.append({"mech": "%s.%s" % (case["kind"], k.split("@")[0]), "detail": "flag %s false (%s)" % (k, {x: case[x] for x in case if x not in ("seed",)})})
    for k, v in obs.get("resid", {}).items():
        if k in VOX_TOL and not v <= VOX_TOL[k]:
            out.append({"mech": "voxel.volume", "detail": "%s rel err %.3e > %.2e shape=%s" % (k, v, VOX_TOL[k], case.get("shape"))})
    return out


def nontrivial(case, obs):
    return obs.get("n_in", 0) > 0 and obs.get("n_out", 0) > 0
