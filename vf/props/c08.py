"""C08 Analytic sphere-through-lens theory equals the numerical lens wrapper."""
import math

import numpy as np

from ..util import rng_for, fnum, loguniform, relmax
from .. import scat

LEVEL_TEXT = ("Runtime monitoring with a differential/refinement oracle on recorded executions: for generated spheres "
              "(index 1.05-2.5, size parameter 0.1-50), positions above and below focus (k*z in [-150,300]), lens angles "
              "0.1-1.4 and arbitrary polarization angles, MieLens and Lens(Mie) are each executed at three increasing "
              "quadrature orders; where a theory is converged (two successive orders agree) a further refinement must not "
              "change it and the two converged theories must agree. AberratedMieLens with zero aberration (scalar, [0], "
              "zero lists of length 2-6) must equal MieLens, and interpolation modes/window sizes/degrees must not change "
              "the result. Beyond the documented large-rho cutoff only 'MieLens returns exactly 0 and Lens stays finite' is checked.")
LEVEL_NOTE = "Trusted: nothing beyond numpy; convergence is certified by the executions themselves (orders n, 2n, 4n / b, 1.5b, 2.25b)."
TECHNIQUE = "runtime monitoring: differential oracle (analytic vs numerical lens theory) with self-certified quadrature refinement; metamorphic options (zero aberration, interpolation mode)"
RULE = ("agree: random (m, x, kz, lens angle, polarization angle), 10 detector points with k*rho up to 150 (quick) / 350 "
        "(thorough), plus 64 / 1200 near-axis comparisons from the large high-index corner (m 1.5-2.5, x 12-50); Lens azimuthal order chosen to resolve k*rho_max*sin(angle); zero_ab (scalar, lists of length 0-6, float32 lens angle) / interp (incl. window sizes that are not binary fractions with the smallest radius on a boundary): same generator, MieLens "
        "only; cutoff: points at k*rho in (3.9, 6) x quad_npts. non-trivial = at least one theory certified converged at "
        "its middle order; distinct by rounded case JSON")
ASSUMPTIONS = ["numexpr is not installed in this sandbox: the use_numexpr=True arm of Lens cannot be reached, that sub-claim is reported as unreachable, not as held",
               "interpolator settings are varied only towards higher accuracy than the documented defaults (window <= 30, degree >= 32)"]
MIN_NONTRIVIAL = 10
REQUIRED_COUNTERS = ["calc_field"]
CASE_TIMEOUT = 1500

TOL = 1e-6
SMALL_TOL = {"Mie": 1e-8, "Multisphere": 1e-4}


def _gen(rng, tier, i):
    m = float(rng.uniform(1.05, 2.5))
    x = float(loguniform(rng, 0.1, 50))
    kz = float(rng.uniform(-150, 300)) if i % 3 else float(rng.uniform(-30, 60))
    la = float(rng.uniform(0.1, 1.4))
    pa = float(rng.uniform(0, 2 * math.pi))
    if i % 7 == 0:
        pa = [0.0, math.pi / 2, math.pi / 4, math.pi][i % 4]
    krmax = 150.0 if tier == "quick" else 350.0
    krho = [float(v) for v in np.concatenate([[0.0], loguniform(rng, 0.3, krmax, 9)])]
    phis = [float(v) for v in rng.uniform(0, 2 * math.pi, 10)]
    # "any sphere": a third of the spheres absorb (index n + ik in HoloPy's convention)
    mi = float(loguniform(rng, 1e-4, 0.5)) if i % 3 == 1 else 0.0
    return {"m": m, "mi": mi, "x": x, "kz": kz, "la": la, "pa": pa, "krho": krho, "phi": phis, "nmed": float(rng.uniform(1.0, 1.5)), "wl": float(rng.uniform(0.4, 0.8))}


def cases(tier, seed):
    out = []
    rng = rng_for(seed, "c08")
    na = 24 if tier == "quick" else 500
    for i in range(na):
        c = _gen(rng, tier, i)
        c.update({"id": "agree-%d" % i, "kind": "agree", "cost": 30, "timeout": 1500})
        out.append(c)
    # large high-index spheres (m x beyond the series order: where the coefficient recurrences are started by continued fractions and
    # their ill-conditioning restarts), many of them, compared near the axis only so that each comparison is cheap
    rng_hi = rng_for(seed, "c08-hi")
    for i in range(64 if tier == "quick" else 1200):
        c = _gen(rng_hi, tier, i)
        c["m"] = float(rng_hi.uniform(1.5, 2.5)); c["x"] = float(rng_hi.uniform(12, 50)); c["kz"] = float(rng_hi.uniform(-40, 60))
        c["krho"] = [0.0, float(rng_hi.uniform(0.5, 3)), float(rng_hi.uniform(3, 8))]; c["phi"] = c["phi"][:3]
        c.update({"id": "agree-hi-%d" % i, "kind": "agree", "cost": 6, "timeout": 1500})
        out.append(c)
    nz = 60 if tier == "quick" else 1500
    for i in range(nz):
        c = _gen(rng, "thorough", i)
        L = [0, 1, 2, 3, 6, -1][i % 6]         # -1: a list of length zero
        c.update({"id": "zero-%d" % i, "kind": "zero_ab", "sa": 0.0 if L == 0 else [0.0] * max(L, 0), "sa_int": bool(i % 2), "opts": scat.ML_OPTS[i % 4]})
        out.append(c)
    for i in range(nz):
        c = _gen(rng, "thorough", i)
        c.update({"id": "interp-%d" % i, "kind": "interp", "window": [30.0, 20.0, 10.0][i % 3], "degree": [32, 40, 48][(i // 3) % 3], "npts_det": [3, 40, 200][i % 3], "annulus": bool((i // 3) % 2)})
        if i % 10 == 7:
            # window sizes that are not binary fractions, the smallest radius exactly on a window boundary
            c.update({"window": [0.1, 0.3, 0.7, 1.1, 7.3, 12.7][(i // 10) % 6], "onbreak": [34, 5, 11, 3][(i // 10) % 4], "annulus": False})
        out.append(c)
    # small problems: every listed quadrature order is far beyond the integrand's bandwidth (|kz| <= 25, k*rho <= 15), so each
    # Lens(theta-order, phi-order) -- deliberately unequal and in both orders -- must already equal the analytic theory
    nsm = 16 if tier == "quick" else 300
    for i in range(nsm):
        c = _gen(rng, tier, i)
        c["x"] = float(loguniform(rng, 0.3, 8))
        c["kz"] = float(rng.uniform(-25, 25))
        c["krho"] = [0.0] + [float(v) for v in rng.uniform(0.2, 15, 5)]
        c["phi"] = c["phi"][:6]
        c["orders"] = [[int(rng.integers(60, 90)), int(rng.integers(100, 140))], [int(rng.integers(100, 140)), int(rng.integers(60, 90))],
                       [int(rng.integers(61, 100)), int(rng.integers(61, 100))]]
        c["inner"] = "Mie"
        c.update({"id": "small-%d" % i, "kind": "small", "cost": 8})
        out.append(c)
    for i in range(max(6, nz // 10)):
        c = _gen(rng, "quick", i)
        c["krho"] = [float(v) for v in rng.uniform(3.95 * 100, 6 * 100, 6)] + [0.0]
        c["phi"] = c["phi"][:7]
        c.update({"id": "cutoff-%d" % i, "kind": "cutoff", "cost": 10})
        out.append(c)
    return out


# ------------------------------------------------------------------ child

def _setup(case, krho=None, phi=None):
    import holopy as hp
    from holopy.scattering import Sphere
    nmed, wl = case["nmed"], case["wl"]
    k = 2 * math.pi * nmed / wl
    krho = np.asarray(case["krho"] if krho is None else krho)
    phi = np.asarray(case["phi"] if phi is None else phi)
    xs, ys = krho / k * np.cos(phi), krho / k * np.sin(phi)
    det = hp.detector_points(x=xs, y=ys, z=0.0)
    m = complex(case["m"], case["mi"]) if case.get("mi") else case["m"]
    s = Sphere(n=m * nmed, r=case["x"] / k, center=(0.0, 0.0, case["kz"] / k))
    pol = (math.cos(case["pa"]), math.sin(case["pa"]))
    return det, s, nmed, wl, pol


def _field(det, s, nmed, wl, pol, th):
    from holopy.scattering import calc_field
    return calc_field(det, s, nmed, wl, pol, theory=th).values[:, :2]


def run_case(case):
    return globals()["_run_" + case["kind"]](case)


def _run_agree(case):
    import warnings
    from holopy.scattering.theory import MieLens, Lens, Mie
    det, s, nmed, wl, pol = _setup(case)
    la = case["la"]
    M = [_field(det, s, nmed, wl, pol, MieLens(la, calculator_accuracy_kwargs={"quad_npts": n, "interpolate_integrals": False})) for n in (100, 200, 400)]
    kr = max(case["krho"])
    nphi0 = int(2 * kr * math.sin(la)) + 60
    nth0 = 100
    L = []
    for f in (1.0, 1.5, 2.25):
        nth, nphi = int(nth0 * f), int(nphi0 * f)
        nphi += nphi % 2
        with warnings.catch_warnings():
            warnings.simplefilter("ignore")
            L.append(_field(det, s, nmed, wl, pol, Lens(la, Mie(), quad_npts_theta=nth, quad_npts_phi=nphi)))
    sc = max(float(np.abs(L[2]).max()), 1e-300)
    d = lambda a, b: float(np.abs(a - b).max()) / sc
    resid = {"mielens_12": d(M[0], M[1]), "mielens_23": d(M[1], M[2]), "lens_12": d(L[0], L[1]), "lens_23": d(L[1], L[2]),
             "cross_33": d(M[2], L[2]), "cross_11": d(M[0], L[0])}
    # default-constructed theories (what users get) are the level-1 objects up to the interpolation switch
    Md = _field(det, s, nmed, wl, pol, MieLens(la))
    resid["default_vs_direct"] = d(Md, M[0])
    from holopy.scattering.theory import lens as lensmod
    return {"resid": {k: fnum(v) for k, v in resid.items()}, "flags": {}, "fmax": fnum(sc), "numexpr": bool(lensmod.NUMEXPR_INSTALLED),
            "orders": {"mielens": [100, 200, 400], "lens": [[int(nth0 * f), int(nphi0 * f)] for f in (1.0, 1.5, 2.25)]}}


def _run_small(case):
    import warnings
    from holopy.scattering.theory import MieLens, Lens, Mie, Multisphere
    det, s, nmed, wl, pol = _setup(case)
    la = case["la"]
    ref = _field(det, s, nmed, wl, pol, MieLens(la, calculator_accuracy_kwargs={"quad_npts": 300, "interpolate_integrals": False}))
    sc = max(float(np.abs(ref).max()), 1e-300)
    resid = {}
    inner = Mie() if case["inner"] == "Mie" else Multisphere()
    for nth, nphi in case["orders"]:
        with warnings.catch_warnings():
            warnings.simplefilter("ignore")
            f = _field(det, s, nmed, wl, pol, Lens(la, inner, quad_npts_theta=nth, quad_npts_phi=nphi))
        resid["small_%s" % ("theta_lt_phi" if nth < nphi else "theta_gt_phi")] = max(resid.get("small_%s" % ("theta_lt_phi" if nth < nphi else "theta_gt_phi"), 0.0),
                                                                                    fnum(float(np.abs(f - ref).max()) / sc))
    # theory objects are re-usable: a second and third calculation with the SAME object (other particle depth, other
    # polarization, then the first again) give what fresh objects give
    from holopy.scattering import Sphere
    nth, nphi = case["orders"][0]
    with warnings.catch_warnings():
        warnings.simplefilter("ignore")
        shared_l, shared_m = Lens(la, Mie(), quad_npts_theta=nth, quad_npts_phi=nphi), MieLens(la)
        s2 = Sphere(n=s.n, r=s.r, center=(0.0, 0.0, -0.6 * float(s.center[2]) + 0.1))
        pol2 = (pol[1], -pol[0] + 0.5)
        worst_l = worst_m = 0.0
        for (ss, pp) in ((s, pol), (s2, pol2), (s, pol)):
            worst_l = max(worst_l, float(np.abs(_field(det, ss, nmed, wl, pp, shared_l) - _field(det, ss, nmed, wl, pp, Lens(la, Mie(), quad_npts_theta=nth, quad_npts_phi=nphi))).max()) / sc)
            worst_m = max(worst_m, float(np.abs(_field(det, ss, nmed, wl, pp, shared_m) - _field(det, ss, nmed, wl, pp, MieLens(la))).max()) / sc)
    resid["reused_lens_object"] = fnum(worst_l)
    resid["reused_mielens_object"] = fnum(worst_m)
    return {"resid": resid, "flags": {}, "fmax": fnum(sc)}


def _run_zero_ab(case):
    from holopy.scattering.theory import MieLens
    from holopy.scattering.theory.mielens import AberratedMieLens
    det, s, nmed, wl, pol = _setup(case)
    kw = case["opts"]
    a = _field(det, s, nmed, wl, pol, MieLens(case["la"], calculator_accuracy_kwargs=kw))
    sa = case["sa"]
    if case["sa_int"]:
        sa = 0 if sa == 0.0 else [0] * len(sa)
    b = _field(det, s, nmed, wl, pol, AberratedMieLens(spherical_aberration=sa, lens_angle=case["la"], calculator_accuracy_kwargs=kw))
    sc = max(float(np.abs(a).max()), 1e-300)
    flags = {}
    if not isinstance(sa, list):
        c = _field(det, s, nmed, wl, pol, AberratedMieLens(lens_angle=case["la"], calculator_accuracy_kwargs=kw))   # default aberration is 0.0
        flags["default_aberration_is_zero"] = bool(np.array_equal(c, b))
    # the lens angle is a number whatever its type: single precision input means the double of the same value
    la32 = np.float32(case["la"])
    f32 = _field(det, s, nmed, wl, pol, MieLens(la32, calculator_accuracy_kwargs=kw))
    f64 = _field(det, s, nmed, wl, pol, MieLens(float(la32), calculator_accuracy_kwargs=kw))
    resid32 = fnum(float(np.abs(f32 - f64).max()) / max(float(np.abs(f64).max()), 1e-300))
    return {"resid": {"zero_aberration": fnum(float(np.abs(a - b).max()) / sc), "float32_lens_angle": resid32}, "flags": flags, "fmax": fnum(sc)}


def _run_interp(case):
    from holopy.scattering.theory import MieLens
    rng = rng_for("interp", case["id"])
    n = case["npts_det"]
    krho = np.concatenate([[0.0], loguniform(rng, 0.3, 350, n - 1)]) if n > 1 else np.array([0.0])
    if case.get("annulus"):
        # the sphere's axis is far outside the field of view: no detector point within the first interpolation windows
        lo = float(rng.uniform(35, 120))
        krho = rng.uniform(lo, lo + float(rng.uniform(5, 200)), max(n, 2))
        phi = rng.uniform(0, 0.5, max(n, 2)) + rng.uniform(0, 6)
    if not case.get("annulus"):
        phi = rng.uniform(0, 2 * math.pi, n)
    if case.get("onbreak"):
        ws_ = case["window"]
        krho = np.array([ws_ * case["onbreak"], ws_ * (case["onbreak"] + 0.5), ws_ * (case["onbreak"] + 3)])
        phi = phi[:3] if len(phi) >= 3 else np.array([0.3, 1.1, 4.0])
    det, s, nmed, wl, pol = _setup(case, krho, phi)
    la = case["la"]
    base = _field(det, s, nmed, wl, pol, MieLens(la, calculator_accuracy_kwargs={"interpolate_integrals": False}))
    sc = max(float(np.abs(base).max()), 1e-300)
    resid = {}
    for nm, kw in (("check", {}), ("on", {"interpolate_integrals": True}),
                   ("on_custom", {"interpolate_integrals": True, "interpolator_window_size": case["window"], "interpolator_degree": case["degree"]})):
        f = _field(det, s, nmed, wl, pol, MieLens(la, calculator_accuracy_kwargs=kw))
        resid["interp_" + nm] = fnum(float(np.abs(f - base).max()) / sc)
    return {"resid": resid, "flags": {}, "fmax": fnum(sc)}


def _run_cutoff(case):
    import warnings
    from holopy.scattering.theory import MieLens, Lens, Mie
    det, s, nmed, wl, pol = _setup(case)
    la = case["la"]
    m = _field(det, s, nmed, wl, pol, MieLens(la))
    with warnings.catch_warnings():
        warnings.simplefilter("ignore")
        l = _field(det, s, nmed, wl, pol, Lens(la, Mie(), 100, 100))
    peak = max(float(np.abs(l[-1]).max()), float(np.abs(m[-1]).max()), 1e-300)     # on-axis point is last
    flags = {"mielens_zero_beyond_cutoff": bool(np.all(m[:-1] == 0)), "lens_finite": bool(np.all(np.isfinite(l)))}
    # the cut-off belongs to the quadrature order that was asked for: with more points the same radii lie inside it, the analytic
    # theory is no longer zero there, further refinement does not change it, and it is what the converged numerical wrapper gives
    kr = max(case["krho"])
    M = [_field(det, s, nmed, wl, pol, MieLens(la, calculator_accuracy_kwargs={"quad_npts": n, "interpolate_integrals": False})) for n in (300, 450)]
    nphi = int(2 * kr * math.sin(la)) + 60
    nphi += nphi % 2
    with warnings.catch_warnings():
        warnings.simplefilter("ignore")
        L = [_field(det, s, nmed, wl, pol, Lens(la, Mie(), quad_npts_theta=nt, quad_npts_phi=int(nphi * f) + int(nphi * f) % 2)) for nt, f in ((200, 1.0), (300, 1.5))]
    far = max(float(np.abs(L[1][:-1]).max()), 1e-300)          # judged against the field AT these radii, not against the on-axis peak
    d = lambda a, b: float(np.abs(a[:-1] - b[:-1]).max()) / far
    flags["mielens_nonzero_when_cutoff_raised"] = bool(np.all(np.abs(M[0][:-1]).max(axis=1) > 0))
    resid = {"far_mielens_refine": fnum(d(M[0], M[1])), "far_lens_refine": fnum(d(L[0], L[1])), "far_cross": fnum(d(M[1], L[1]))}
    return {"resid": resid, "flags": flags, "fmax": fnum(peak), "lens_far_over_peak": fnum(float(np.abs(l[:-1]).max()) / peak)}


# ------------------------------------------------------------------ oracle

def judge(case, obs):
    out = []
    r = obs["resid"]
    desc = {k: case[k] for k in ("m", "mi", "x", "kz", "la", "pa") if k in case}
    if case["kind"] == "agree":
        desc["orders"] = obs.get("orders")
        m_conv = r["mielens_12"] <= TOL
        l_conv = r["lens_12"] <= TOL
        if m_conv and not r["mielens_23"] <= TOL:
            out.append({"mech": "refine.mielens", "detail": "MieLens converged at 100->200 (%.2e) but 200->400 changes it by %.2e; %s" % (r["mielens_12"], r["mielens_23"], desc)})
        if l_conv and not r["lens_23"] <= TOL:
            out.append({"mech": "refine.lens", "detail": "Lens converged at b->1.5b (%.2e) but 1.5b->2.25b changes it by %.2e; %s" % (r["lens_12"], r["lens_23"], desc)})
        if r["mielens_23"] <= TOL and r["lens_23"] <= TOL and not r["cross_33"] <= TOL:
            out.append({"mech": "agree.converged", "detail": "both theories converged (%.1e, %.1e) but differ by %.3e; %s" % (r["mielens_23"], r["lens_23"], r["cross_33"], desc)})
        if m_conv and l_conv and not r["cross_11"] <= 3 * TOL:
            out.append({"mech": "agree.default_orders", "detail": "both converged at their first order but differ by %.3e; %s" % (r["cross_11"], desc)})
        if not r["default_vs_direct"] <= 1e-8:
            out.append({"mech": "interp.check", "detail": "default MieLens vs direct evaluation %.3e; %s" % (r["default_vs_direct"], desc)})
        return out
    if case["kind"] == "cutoff":
        if r["far_mielens_refine"] <= 1e-6 and r["far_lens_refine"] <= 1e-6 and not r["far_cross"] <= 1e-5:
            out.append({"mech": "cutoff.far_cross", "detail": "with raised quadrature orders both theories are converged beyond the default cut-off (%.1e, %.1e) but differ by %.3e of the field there; %s" % (r["far_mielens_refine"], r["far_lens_refine"], r["far_cross"], desc)})
        r = {}
    for k, v in r.items():
        tol = {"zero_aberration": 1e-13, "float32_lens_angle": 1e-12, "interp_check": 1e-8, "interp_on": 1e-8, "interp_on_custom": 1e-8,
               "reused_lens_object": 0.0, "reused_mielens_object": 0.0, "small_theta_lt_phi": SMALL_TOL[case.get("inner", "Mie")], "small_theta_gt_phi": SMALL_TOL[case.get("inner", "Mie")]}[k]
        if not v <= tol:
            out.append({"mech": "%s.%s" % (case["kind"], k), "detail": "%s=%.3e > %.0e; %s %s" % (k, v, tol, desc, {x: case[x] for x in case if x in ("sa", "opts", "window", "degree", "npts_det", "orders", "inner")})})
    for k, v in obs["flags"].items():
        if not v:
            out.append({"mech": "%s.%s" % (case["kind"], k), "detail": "%s" % desc})
    return out


def nontrivial(case, obs):
    if case["kind"] == "agree":
        r = obs["resid"]
        return obs.get("fmax", 0) > 0 and (r["mielens_12"] <= TOL or r["lens_12"] <= TOL)
    return obs.get("fmax", 0) > 0


def evidence_extra(cases, obs):
    both = one = none = 0
    numexpr = None
    for c in cases:
        o = obs.get(c["id"], {}).get("obs")
        if c["kind"] != "agree" or not isinstance(o, dict):
            continue
        numexpr = o.get("numexpr")
        r = o["resid"]
        a, b = r["mielens_23"] <= TOL, r["lens_23"] <= TOL
        both += a and b; one += (a != b); none += (not a and not b)
    return {"agree_cases_both_converged": int(both), "agree_cases_one_converged": int(one), "agree_cases_unconverged": int(none),
            "numexpr_installed": numexpr, "unreachable_subclaims": [] if numexpr else ["Lens(use_numexpr=True) == Lens(use_numexpr=False)"]}
