"""C18 Image-processing tools satisfy their defining identities."""
import itertools
import math

import numpy as np

from ..util import rng_for, fnum, loguniform, relmax

NEEDS_FORTRAN = True     # center_find is exercised on holograms computed with the compiled Mie solver
LEVEL_TEXT = ("Runtime monitoring of the real normalize / bg_correct / subimage / zero_filter / detrend / Accumulator / "
              "center_find / make_center_priors on generated images: all crop centres and even sizes that fit on images "
              "up to 8x8 and every single dead-pixel position on small images are enumerated, the rest is seeded random; "
              "the oracle recomputes each defining identity independently (pixelwise formulas, neighbour means, "
              "numpy batch statistics, the generating sphere centre) and a purity/metadata monitor runs on every call.")
LEVEL_NOTE = "Trusted: numpy/scipy arithmetic; the compiled Mie solver only as a generator of ring patterns for the centre finder."
TECHNIQUE = "runtime monitoring: generated images through the real tools, defining-identity oracle + metadata/purity monitors; bounded-exhaustive crops and dead-pixel positions"
RULE = ("norm/bg (incl. a background at other pixel coordinates, and at coordinates equal to rounding)/detrend: random positive images of random shape (2..40, incl. non-square), layouts (x,y)/(z,x,y), value "
        "ranges over 1e-6..1e6; sub: every (centre, even size) that fits on images <=8x8 + random incl. float centres; "
        "zero: every single dead pixel position on small images + sparse isolated sets; acc: all permutations of <=5 "
        "pushes + sampled orders of up to 12; center: single-sphere Mie holograms, 60-160 px, centre in the central 60%. "
        "non-trivial = image not constant; distinct by rounded case JSON")
ASSUMPTIONS = ["subimage is specified for even sizes only (its docstring); odd sizes are checked only for value/coordinate retention",
               "zero_filter identities are checked for isolated dead pixels (no two in the same row/column neighbourhood)",
               "centre finder: the one-pixel claim is checked on the property's own box; few-fringe regime F<2 is a listed known finding"]
MIN_NONTRIVIAL = 20


def cases(tier, seed):
    out = []
    rng = rng_for(seed, "c18")
    n = 60 if tier == "quick" else 1500
    for i in range(n):
        shape = [int(rng.integers(2, 41)), int(rng.integers(2, 41))]
        out.append({"id": "norm-%d" % i, "kind": "norm", "shape": shape, "layout": ["xy", "zxy"][i % 2],
                    "scale": float(loguniform(rng, 1e-6, 1e6)), "seed": [seed, "norm", i]})
        out.append({"id": "bg-%d" % i, "kind": "bg", "shape": shape, "layout": ["zxy", "xy"][i % 2], "dark": bool(i % 3),
                    "scale": float(loguniform(rng, 1e-12, 1e6)), "seed": [seed, "bg", i]})
        out.append({"id": "detrend-%d" % i, "kind": "detrend", "shape": [max(3, shape[0]), max(3, shape[1])],
                    "layout": ["xy", "zxy"][i % 2], "plane": [float(rng.normal() * 10 ** rng.uniform(-3, 3)) for _ in range(3)],
                    "seed": [seed, "detrend", i]})
    # subimage: exhaustive on small images
    k = 0
    small = [(4, 4), (5, 7), (8, 8), (6, 3), (2, 8)] if tier == "quick" else [(a, b) for a in range(2, 9) for b in range(2, 9)]
    for (nx, ny) in small:
        out.append({"id": "sub-ex-%d" % k, "kind": "sub_ex", "shape": [nx, ny], "layout": ["xy", "zxy"][k % 2], "seed": [seed, "subex", k], "cost": 5})
        k += 1
    for i in range(n):
        out.append({"id": "sub-r-%d" % i, "kind": "sub_r", "shape": [int(rng.integers(10, 80)), int(rng.integers(10, 80))],
                    "layout": ["xy", "zxy"][i % 2], "seed": [seed, "subr", i]})
    # zero filter
    k = 0
    zsm = [(3, 3), (4, 5), (6, 4)] if tier == "quick" else [(a, b) for a in range(3, 8) for b in range(3, 8)]
    for (nx, ny) in zsm:
        out.append({"id": "zero-ex-%d" % k, "kind": "zero_ex", "shape": [nx, ny], "layout": ["xy", "zxy"][k % 2], "seed": [seed, "zex", k], "cost": 6,
                    "scale": [1.0, 1e-9, 1e-13, 3e4][k % 4]})
        k += 1
    for i in range(n):
        out.append({"id": "zero-r-%d" % i, "kind": "zero_r", "shape": [int(rng.integers(5, 40)), int(rng.integers(5, 40))],
                    "layout": ["xy", "zxy"][i % 2], "ndead": int(rng.integers(1, 8)), "seed": [seed, "zr", i],
                    "scale": float(loguniform(rng, 1e-15, 1e8))})
    # accumulator
    for i in range(n // 2):
        out.append({"id": "acc-%d" % i, "kind": "acc", "npush": 1 + i % 5, "what": ["scalar", "array", "image"][i % 3], "seed": [seed, "acc", i],
                    "dtype": ["float64", "uint8", "uint16", "int32", "int64"][(i // 3) % 5]})
    for i in range(n // 4):
        out.append({"id": "acc-l-%d" % i, "kind": "acc", "npush": int(rng.integers(6, 13)), "what": ["scalar", "array", "image"][i % 3], "seed": [seed, "accl", i]})
    out.append({"id": "acc-empty", "kind": "acc_empty"})
    # centre finder
    nc = 32 if tier == "quick" else 800
    for i in range(nc):
        N = int(rng.integers(60, 161))
        c = {"id": "center-%d" % i, "kind": "center", "N": N, "spacing": float(rng.uniform(0.08, 0.15)),
             "fx": float(rng.uniform(0.2, 0.8)), "fy": float(rng.uniform(0.2, 0.8)), "z": float(rng.uniform(5, 25)),
             "r": float(rng.uniform(0.3, 1.0)), "n": float(rng.uniform(1.4, 1.7)), "cost": 30}
        if i % 2:
            c["Ny"] = int(rng.integers(60, 161))       # non-square detector (tall or wide)
        out.append(c)
    # catalogue: the few-fringe corner of the property's box (small detector, deep particle, centre at the rim);
    # cat-0 is the recorded witness of known finding F14
    out.append({"id": "center-cat-0", "kind": "center", "N": 66, "spacing": 0.09240576764254894, "fx": 0.7856400845183807,
                "fy": 0.7340582910077152, "z": 22.715101026132615, "r": 0.8594175026545858, "n": 1.5902015158517928, "cost": 30})
    for i in range(nc // 4):
        N = int(rng.integers(60, 90))
        out.append({"id": "center-rim-%d" % i, "kind": "center", "N": N, "spacing": float(rng.uniform(0.08, 0.11)),
                    "fx": float(rng.choice([rng.uniform(0.2, 0.3), rng.uniform(0.7, 0.8)])),
                    "fy": float(rng.choice([rng.uniform(0.2, 0.3), rng.uniform(0.7, 0.8)])), "z": float(rng.uniform(18, 25)),
                    "r": float(rng.uniform(0.3, 1.0)), "n": float(rng.uniform(1.4, 1.7)), "cost": 30})
    return out


# ------------------------------------------------------------------ child

def child_setup(shard):
    from vf import monitors as M
    import holopy.core.process.img_proc as IP
    import holopy.core.process.centerfinder as CF
    import holopy.core.prior as PR
    for nm in ("normalize", "detrend", "zero_filter", "subimage", "bg_correct"):
        M.wrap_in_modules(nm, getattr(IP, nm))
    M.wrap_in_modules("center_find", CF.center_find)
    M.wrap_in_modules("make_center_priors", PR.make_center_priors)


def _img(case, rng, positive=True, shape=None):
    from holopy.core.metadata import data_grid
    nx, ny = shape or case["shape"]
    a = rng.uniform(0.2, 1.8, size=(nx, ny)) * case.get("scale", 1.0)
    im = data_grid(a, spacing=(float(rng.uniform(0.05, 0.3)), float(rng.uniform(0.05, 0.3))), medium_index=1.33,
                   illum_wavelen=0.66, illum_polarization=(1, 0), noise_sd=None if case.get("kind") == "bg" else 0.02, name="im9")
    if rng.random() < 0.3:
        im = im.assign_coords(x=im.x.values + 1.7, y=im.y.values - 0.4)
    if case.get("layout") == "xy":
        im = im.isel(z=0, drop=True)
    return im


def _meta_same(a, b, coords=True):
    from vf.monitors import digest
    ok = digest(dict(a.attrs)) == digest(dict(b.attrs)) and a.name == b.name and a.dims == b.dims
    if coords:
        ok = ok and all(np.array_equal(a[c].values, b[c].values) for c in a.dims)
    return bool(ok)


def run_case(case):
    return globals()["_run_" + case["kind"]](case)


def _run_norm(case):
    from holopy.core.process import normalize
    rng = rng_for(*case["seed"])
    im = _img(case, rng)
    nz = normalize(im)
    resid, flags = {}, {}
    resid["mean_minus_1"] = fnum(abs(float(nz.values.mean()) - 1.0))
    resid["mean_minus_1@fsum"] = fnum(abs(math.fsum(nz.values.ravel()) / nz.size - 1.0))
    resid["idempotent"] = relmax(normalize(nz), nz)
    c = float(loguniform(rng, 1e-5, 1e5))
    scaled = im * c
    scaled.attrs = im.attrs
    resid["scale_invariant"] = relmax(normalize(scaled), nz)
    resid["pixelwise"] = relmax(nz, im.values / im.values.mean())
    flags["metadata"] = _meta_same(nz, im)
    return {"resid": resid, "flags": flags, "const": bool(np.ptp(im.values) == 0)}


def _run_bg(case):
    from holopy.core.process import bg_correct
    from holopy.core.metadata import update_metadata
    rng = rng_for(*case["seed"])
    raw = _img(case, rng)
    sp = (float(raw.x.values[1] - raw.x.values[0]) if raw.sizes["x"] > 1 else 1.0)
    bg = raw.copy(data=rng.uniform(1.0, 2.0, raw.shape) * case["scale"])
    bg = update_metadata(bg, noise_sd=0.07)
    df = raw.copy(data=rng.uniform(0.0, 0.15, raw.shape) * case["scale"]) if case["dark"] else None
    if df is not None:
        df = update_metadata(df, noise_sd=0.04)         # calibration frames carry their own (averaged) noise level
    if int(case["seed"][-1]) % 2:
        # a raw frame that does not know its medium yet, calibration frames that do: the result is the RAW frame's metadata
        raw.attrs = dict(raw.attrs, medium_index=None)
        bg = update_metadata(bg, medium_index=1.5)
        if df is not None:
            df = update_metadata(df, medium_index=1.5)
    resid, flags = {}, {}
    out = bg_correct(raw, bg, df) if df is not None else bg_correct(raw, bg)
    d = df.values if df is not None else 0.0
    resid["pixelwise"] = relmax(out, (raw.values - d) / (bg.values - d))
    self_div = bg_correct(raw, raw)
    flags["self_division_exactly_one"] = bool(np.all(self_div.values == 1.0))
    flags["metadata"] = bool(out.name == raw.name and out.dims == raw.dims and
                             all(np.array_equal(out[c].values, raw[c].values) for c in raw.dims) and
                             out.attrs.get("medium_index") == raw.attrs.get("medium_index") and
                             out.attrs.get("illum_wavelen") == raw.attrs.get("illum_wavelen"))
    flags["noise_from_bg_when_missing"] = bool(out.attrs.get("noise_sd") == 0.07)
    # a background of the same shape and spacing taken somewhere else (other pixel coordinates) is not a background of this image:
    # refused, or divided pixel by pixel -- never a silently smaller picture of the overlap
    from holopy.core.errors import BadImage
    if raw.sizes["x"] > 2:
        moved = bg.assign_coords(x=bg.x.values + 2 * sp)
        moved.attrs = dict(bg.attrs)
        try:
            om = bg_correct(raw, moved)
            flags["background_elsewhere_refused_or_pixelwise"] = bool(om.shape == raw.shape)
        except BadImage:
            flags["background_elsewhere_refused_or_pixelwise"] = True
        # ... while coordinates that differ by rounding only (a crop computed another way) are the same pixels
        near = bg.assign_coords(x=(bg.x.values / 3.0) * 3.0 + 0.0, y=bg.y.values * (1 + 2e-16))
        near.attrs = dict(bg.attrs)
        try:
            on = bg_correct(raw, near)
            flags["coordinates_equal_to_rounding_accepted"] = bool(on.shape == raw.shape)
        except BadImage:
            flags["coordinates_equal_to_rounding_accepted"] = False
    raw2 = update_metadata(raw, noise_sd=0.01)
    out2 = bg_correct(raw2, bg, df) if df is not None else bg_correct(raw2, bg)
    flags["noise_kept_when_present"] = bool(out2.attrs.get("noise_sd") == 0.01)
    # one background object serves a stack of frames: other raw frames, with / without / another dark field, and after
    # the background's pixels were refreshed in place -- each call is (raw - dark)/(bg - dark) for ITS arguments
    worst = 0.0
    df2 = raw.copy(data=rng.uniform(0.0, 0.3, raw.shape) * case["scale"])
    for step in range(5):
        rw = raw.copy(data=rng.uniform(0.2, 1.8, raw.shape) * case["scale"])
        dd = [None, df, df2, None, df2][step]
        if step == 3:
            bg.values[...] = rng.uniform(1.0, 2.0, raw.shape) * case["scale"]
        o = bg_correct(rw, bg, dd) if dd is not None else bg_correct(rw, bg)
        dv = dd.values if dd is not None else 0.0
        worst = max(worst, relmax(o, (rw.values - dv) / (bg.values - dv)))
    resid["pixelwise@shared_background"] = worst
    # camera frames as the camera delivers them: integer counts (unsigned ones too), with pixels below the dark count
    for dt in ("uint8", "uint16", "int16"):
        hi = {"uint8": 255, "uint16": 65535, "int16": 32767}[dt]
        ri = raw.copy(data=rng.integers(0, hi // 2, raw.shape).astype(dt))
        bi = raw.copy(data=rng.integers(hi // 2, hi, raw.shape).astype(dt))
        di = raw.copy(data=rng.integers(0, hi // 3, raw.shape).astype(dt))
        oi = bg_correct(ri, bi, di)
        ref = (ri.values.astype(float) - di.values.astype(float)) / (bi.values.astype(float) - di.values.astype(float))
        worst_i = relmax(oi, ref)
        resid["pixelwise@integer_frames"] = fnum(max(resid.get("pixelwise@integer_frames", 0.0), worst_i))
    # mismatched shapes are refused
    if raw.sizes["x"] > 2:
        from holopy.core.errors import BadImage
        try:
            bg_correct(raw, bg.isel(x=slice(1, None)))
            flags["shape_mismatch_refused"] = False
        except BadImage:
            flags["shape_mismatch_refused"] = True
        except Exception:
            flags["shape_mismatch_refused"] = False
    return {"resid": resid, "flags": flags, "const": False}


def _check_sub(im, center, shape):
    """returns (ok_values_coords, ok_shape)"""
    from holopy.core.process import subimage
    s = subimage(im, center, shape)
    if len(center) == 3:
        center = [center[im.dims.index("x")], center[im.dims.index("y")]]       # one entry per dimension of the image
    cx, cy = [int(v) for v in np.round(center)]
    sx, sy = (shape, shape) if np.isscalar(shape) else shape
    x0, x1 = int(np.round(cx - sx / 2)), int(np.round(cx + sx / 2))
    y0, y1 = int(np.round(cy - sy / 2)), int(np.round(cy + sy / 2))
    exp = im.isel(x=slice(x0, x1), y=slice(y0, y1))
    ok_shape = (s.sizes["x"], s.sizes["y"]) == (sx, sy)
    # every retained pixel keeps value and physical coordinates: look each one up in the original by coordinate label
    ok = s.sizes["x"] > 0 and s.sizes["y"] > 0
    if ok:
        back = im.sel(x=s.x.values, y=s.y.values)
        ok = bool(np.array_equal(back.values, s.values)) and bool(np.array_equal(s.values, exp.values)) \
            and np.array_equal(s.x.values, exp.x.values) and np.array_equal(s.y.values, exp.y.values)
    ok = ok and _meta_same(s, im, coords=False)
    return bool(ok), bool(ok_shape)


def _run_sub_ex(case):
    rng = rng_for(*case["seed"])
    im = _img(case, rng)
    nx, ny = case["shape"]
    n = bad_v = bad_s = 0
    witness = None
    for sx in range(2, nx + 1, 2):
        for sy in range(2, ny + 1, 2):
            for cx in range(sx // 2, nx - sx // 2 + 1):
                for cy in range(sy // 2, ny - sy // 2 + 1):
                    # the documented (int, int) size on every layout (images made by detector_grid / calc_holo / load_image have a
                    # length-one z axis), and the centre also given with one entry per dimension of such an image
                    shapes = [(sx, sy)]
                    if sx == sy:
                        shapes.append(sx)
                    for shp in shapes:
                        ctr = (cx, cy)
                        if im.ndim == 3 and (cx + cy + sx) % 3 == 0:
                            ctr = tuple({"x": cx, "y": cy, "z": 0}[d] for d in im.dims)
                        okv, oks = _check_sub(im, ctr, shp)
                        n += 1
                        if not okv or not oks:
                            bad_v += (not okv); bad_s += (not oks)
                            witness = witness or {"center": [cx, cy], "shape": shp}
    return {"resid": {}, "flags": {"values_coords": bad_v == 0, "shape": bad_s == 0}, "n_crops": n, "witness": witness, "const": False}


def _run_sub_r(case):
    rng = rng_for(*case["seed"])
    im = _img(case, rng)
    nx, ny = case["shape"]
    n = bad_v = bad_s = 0
    witness = None
    for _ in range(12):
        sx = 2 * int(rng.integers(1, nx // 2 + 1)); sy = 2 * int(rng.integers(1, ny // 2 + 1))
        if case["layout"] != "xy" or rng.random() < 0.3:
            sy = sx = min(sx, sy)
            shp = sx
        else:
            shp = (sx, sy)
        cx = float(rng.uniform(sx / 2 + 0.51, nx - sx / 2 - 0.51)) if nx - sx > 2 else nx / 2
        cy = float(rng.uniform(sy / 2 + 0.51, ny - sy / 2 - 0.51)) if ny - sy > 2 else ny / 2
        if rng.random() < 0.5:
            cx, cy = int(round(cx)), int(round(cy))
        okv, oks = _check_sub(im, (cx, cy), shp)
        n += 1
        if not okv or not oks:
            bad_v += (not okv); bad_s += (not oks)
            witness = witness or {"center": [cx, cy], "shape": shp}
    return {"resid": {}, "flags": {"values_coords": bad_v == 0, "shape": bad_s == 0}, "n_crops": n, "witness": witness, "const": False}


def _expected_zero_filter(a, dead):
    """a: 2-D array (x,y) with zeros at `dead` (isolated). Returns expected array or None for a dead corner."""
    nx, ny = a.shape
    exp = a.copy()
    for (i, j) in dead:
        xn = [a[i - 1, j], a[i + 1, j]] if 0 < i < nx - 1 else None
        yn = [a[i, j - 1], a[i, j + 1]] if 0 < j < ny - 1 else None
        parts = []
        if xn is not None:
            parts.append((xn[0] + xn[1]) / 2)
        if yn is not None:
            parts.append((yn[0] + yn[1]) / 2)
        if not parts:
            return None
        exp[i, j] = sum(parts) / len(parts)
    return exp


def _zero_one(im, dead):
    from holopy.core.process import zero_filter
    from holopy.core.errors import BadImage
    a2 = im.values[0] if im.ndim == 3 else im.values
    a2 = a2.copy()
    for (i, j) in dead:
        a2[i, j] = 0.0
    holed = im.copy(data=a2[None] if im.ndim == 3 else a2)
    exp = _expected_zero_filter(a2, dead)
    try:
        out = zero_filter(holed)
    except BadImage:
        return ("refused", exp is None, 0.0, True)
    if exp is None:
        return ("accepted_dead_corner", False, 0.0, True)
    o2 = out.transpose(*holed.dims).values
    o2 = o2[0] if o2.ndim == 3 else o2
    mask = np.ones_like(a2, dtype=bool)
    for (i, j) in dead:
        mask[i, j] = False
    untouched = bool(np.array_equal(o2[mask], a2[mask]))
    err = float(max(abs(o2[i, j] - exp[i, j]) / abs(exp[i, j]) for (i, j) in dead))
    return ("ok", untouched, err, _meta_same(out.transpose(*holed.dims), holed))


def _run_zero_ex(case):
    rng = rng_for(*case["seed"])
    im = _img(case, rng)
    nx, ny = case["shape"]
    worst = 0.0
    flags = {"positive_untouched": True, "corner_refused": True, "metadata": True}
    n = 0
    for i in range(nx):
        for j in range(ny):
            st, ok, err, meta = _zero_one(im, [(i, j)])
            n += 1
            corner = i in (0, nx - 1) and j in (0, ny - 1)
            if corner:
                flags["corner_refused"] &= (st == "refused")
            else:
                flags["positive_untouched"] &= (st == "ok" and ok)
                flags["metadata"] &= bool(meta)
                worst = max(worst, err)
    # no dead pixel at all: unchanged
    from holopy.core.process import zero_filter
    flags["clean_image_unchanged"] = bool(np.array_equal(zero_filter(im).transpose(*im.dims).values, im.values))
    return {"resid": {"neighbour_mean": fnum(worst)}, "flags": {k: bool(v) for k, v in flags.items()}, "n_positions": n, "const": False}


def _run_zero_r(case):
    rng = rng_for(*case["seed"])
    im = _img(case, rng)
    nx, ny = case["shape"]
    dead = []
    tries = 0
    while len(dead) < case["ndead"] and tries < 200:
        tries += 1
        i, j = int(rng.integers(0, nx)), int(rng.integers(0, ny))
        if (i in (0, nx - 1) and j in (0, ny - 1)):
            continue
        if any(abs(i - a) <= 1 and abs(j - b) <= 1 for a, b in dead):
            continue
        dead.append((i, j))
    st, ok, err, meta = _zero_one(im, dead)
    return {"resid": {"neighbour_mean": fnum(err)}, "flags": {"positive_untouched": bool(st == "ok" and ok), "metadata": bool(meta)},
            "dead": dead, "const": False}


def _run_detrend(case):
    from holopy.core.process import detrend
    rng = rng_for(*case["seed"])
    im = _img(case, rng)
    nx, ny = im.sizes["x"], im.sizes["y"]
    a, b, c = case["plane"]
    ii, jj = np.meshgrid(np.arange(nx), np.arange(ny), indexing="ij")
    plane = a * ii + b * jj + c
    if im.ndim == 3:
        plane = plane[None]
    tilted = im + plane
    tilted.attrs = im.attrs
    tilted.name = im.name
    d0 = detrend(im)
    d1 = detrend(tilted)
    rng_ = float(np.ptp(im.values)) + float(np.abs(plane).max())
    resid = {"plane_removed": fnum(float(np.abs(d1.values - d0.values).max()) / rng_)}
    # a pure plane detrends to zero
    pl = im.copy(data=plane)
    resid["pure_plane_to_zero"] = fnum(float(np.abs(detrend(pl).values).max()) / max(float(np.abs(plane).max()), 1e-300))
    flags = {"metadata": _meta_same(d1, tilted)}
    return {"resid": resid, "flags": flags, "const": False}


def _run_acc(case):
    from holopy.core.io.io import Accumulator
    rng = rng_for(*case["seed"])
    n = case["npush"]
    what = case["what"]
    dt = case.get("dtype", "float64")

    def cast(a):     # camera frames are integer arrays; the accumulator must not compute in their dtype
        if dt.startswith("float"):
            return np.asarray(a).astype(dt)
        hi = {"uint8": 255, "uint16": 60000, "int32": 10 ** 6, "int64": 10 ** 9}[dt]
        return np.clip(np.asarray(a) * hi / 12.0, 0, hi).astype(dt)
    if what == "scalar":
        xs = [float(v) for v in rng.normal(5, 2, n)] if dt.startswith("float") else [cast(v).item() if dt == "int64" else cast(v)[()] for v in rng.uniform(0, 12, n)]
    elif what == "array":
        xs = [cast(rng.uniform(0, 12, (3, 4))) for _ in range(n)]
    else:
        base = _img({"shape": [4, 5], "layout": "zxy", "scale": 1.0}, rng_for(*case["seed"]))
        xs = [base.copy(data=cast(rng.uniform(0, 12, base.shape))) for _ in range(n)]
    arrs = [np.asarray(getattr(x, "values", x), dtype=float) for x in xs]
    bm, bs = np.mean(arrs, axis=0), np.std(arrs, axis=0)
    orders = list(itertools.permutations(range(n))) if n <= 5 else [list(rng.permutation(n)) for _ in range(20)]
    wm = ws = 0.0
    scale = float(np.abs(bm).max()) or 1.0
    from vf.monitors import digest
    d_in = digest(xs)
    for order in orders:
        acc = Accumulator()
        for k in order:
            acc.push(xs[k])
        m = np.asarray(getattr(acc.mean(), "values", acc.mean()), dtype=float)
        s = np.asarray(getattr(acc.std(), "values", acc.std()), dtype=float)
        wm = max(wm, float(np.abs(m - bm).max()) / scale)
        ws = max(ws, float(np.abs(s - bs).max()) / scale)
    flags = {"pushed_items_untouched": bool(digest(xs) == d_in)}
    # a mean (or spread) that has been read is a result, not a view of the accumulator: later pushes leave it alone
    if n >= 2:
        acc = Accumulator()
        for x in xs[:-1]:
            acc.push(x)
        m_early, s_early = acc.mean(), acc.std()
        d_early = (digest(m_early), digest(s_early))
        acc.push(xs[-1])
        flags["mean_read_earlier_unchanged_by_later_push"] = bool((digest(m_early), digest(s_early)) == d_early)
    if what == "image":
        acc = Accumulator()
        for x in xs:
            acc.push(x)
        flags["image_type_kept"] = bool(hasattr(acc.mean(), "attrs") and acc.mean().dims == xs[0].dims)
    return {"resid": {"acc_mean": fnum(wm), "acc_std": fnum(ws)}, "flags": flags, "orders": len(orders), "const": False}


def _run_acc_empty(case):
    from holopy.core.io.io import Accumulator
    a = Accumulator()
    return {"resid": {}, "flags": {"empty_std_none": a.std() is None, "empty_mean_zero": a.mean() == 0.0}, "const": False}


def _run_center(case):
    import holopy as hp
    from holopy.scattering import calc_holo, Sphere
    from holopy.core.process import center_find
    from holopy.core.prior import make_center_priors, Gaussian, Uniform
    from holopy.core.metadata import get_extents
    from vf.monitors import digest
    N, sp = case["N"], case["spacing"]
    Ny = case.get("Ny", N)
    cx, cy = case["fx"] * N * sp, case["fy"] * Ny * sp
    det = hp.detector_grid((N, Ny), sp)
    h = calc_holo(det, Sphere(n=case["n"], r=case["r"], center=(cx, cy, case["z"])), 1.33, 0.66, (1, 0))
    before = digest(h)
    c = np.asarray(center_find(h), dtype=float)
    err = np.abs(c - np.array([cx, cy]) / sp)
    pri = make_center_priors(h)
    flags = {}
    flags["input_untouched"] = bool(digest(h) == before)
    flags["priors_types"] = bool(len(pri) == 3 and isinstance(pri[0], Gaussian) and isinstance(pri[1], Gaussian) and isinstance(pri[2], Uniform))
    if flags["priors_types"]:
        exp_mu = c * sp + np.array([float(h.x[0]), float(h.y[0])])
        flags["priors_mean"] = bool(np.allclose([pri[0].mu, pri[1].mu], exp_mu, rtol=1e-12, atol=0))
        flags["priors_sd"] = bool(np.allclose([pri[0].sd, pri[1].sd], [sp, sp], rtol=1e-9))
        ext = max(get_extents(h)["x"], get_extents(h)["y"])
        flags["priors_z"] = bool(pri[2].lower_bound == 0 and abs(pri[2].upper_bound - 5 * ext) <= 1e-9 * ext)
    # shifted-origin image: priors follow the physical coordinates
    h2 = h.assign_coords(x=h.x.values + 2.5, y=h.y.values - 1.0)
    pri2 = make_center_priors(h2)
    flags["priors_follow_origin"] = bool(abs(pri2[0].mu - (pri[0].mu + 2.5)) < 1e-9 and abs(pri2[1].mu - (pri[1].mu - 1.0)) < 1e-9)
    W = min(N, Ny) * sp
    fres = (W / 2) ** 2 / (0.66 / 1.33 * case["z"])
    return {"resid": {"center_err_px": fnum(err.max())}, "flags": flags, "fresnel": fres, "err": [float(err[0]), float(err[1])], "const": False}


# ------------------------------------------------------------------ oracle

TOL = {"mean_minus_1": 4e-15, "idempotent": 1e-14, "scale_invariant": 1e-14, "pixelwise": 1e-14, "pixelwise@shared_background": 1e-14, "pixelwise@integer_frames": 1e-14,
       "neighbour_mean": 5e-14, "plane_removed": 1e-10, "pure_plane_to_zero": 1e-10, "acc_mean": 1e-12, "acc_std": 1e-12}


def judge(case, obs):
    out = []
    desc = {k: case[k] for k in case if k not in ("seed", "id", "cost")}
    kind = case["kind"].split("_")[0]
    for k, v in obs.get("flags", {}).items():
        if not v:
            out.append({"mech": "%s.%s" % (kind, k), "detail": "flag %s false; %s witness=%s" % (k, desc, obs.get("witness"))})
    for k, v in obs.get("resid", {}).items():
        base = k.split("@")[0]
        if base == "center_err_px":
            if not v <= 1.0:
                regime = "few_fringe_F_lt_2" if obs["fresnel"] < 2 else "F_ge_2"
                out.append({"mech": "center.miss.%s" % regime, "detail": "centre off by %s px (Fresnel number %.2f); %s" % (obs["err"], obs["fresnel"], desc)})
            continue
        if not v <= TOL[base]:
            out.append({"mech": "%s.%s" % (kind, base), "detail": "%s=%.3e > %.1e; %s" % (k, v, TOL[base], desc)})
    return out


def nontrivial(case, obs):
    return not obs.get("const")


def evidence_extra(cases, obs):
    crops = sum(o.get("obs", {}).get("n_crops", 0) for o in obs.values() if isinstance(o.get("obs"), dict))
    pos = sum(o.get("obs", {}).get("n_positions", 0) for o in obs.values() if isinstance(o.get("obs"), dict))
    orders = sum(o.get("obs", {}).get("orders", 0) for o in obs.values() if isinstance(o.get("obs"), dict))
    errs = sorted(o["obs"]["resid"]["center_err_px"] for o in obs.values() if isinstance(o.get("obs"), dict) and "center_err_px" in o["obs"].get("resid", {}))
    return {"crops_checked": crops, "dead_pixel_positions_checked": pos, "accumulator_orders_checked": orders,
            "center_errors_px_sorted_tail": errs[-5:], "center_cases": len(errs),
            "exhaustive_subspace": "all (centre, even size) crops that fit on the listed small images; every single dead-pixel position on the listed small images; all permutations of <=5 pushes"}
