"""C09 Sphere clusters: order independence, symmetry, default-theory rule."""
import itertools
import math

import numpy as np

from ..util import rng_for, fnum, loguniform, relmax
from .. import scat

LEVEL_TEXT = ("Runtime monitoring on recorded executions of the real multi-sphere solver: clusters of 1-6 non-overlapping "
              "spheres of mixed size/index are solved in every listing order (all permutations up to 4 members, sampled "
              "beyond), with both interaction-equation solvers and default/tight tolerances, rotated about the optical axis "
              "together with polarization and detector points, and as one-sphere clusters against the Lorenz-Mie solver; "
              "the default-theory rule is checked by running calc_holo(theory='auto') against the call naming the "
              "documented theory (bitwise) for single/layered spheres, collections on both sides of the 30-radius boundary "
              "(1 +- 1e-9, 1 +- 1e-3 and exactly on it), spheroids, cylinders, other shapes (missing-dependency error) and "
              "non-scatterers (clear error).")
LEVEL_NOTE = "Trusted: the documented rule table re-implemented in the checker (max pairwise centre distance <= 30 * largest radius)."
TECHNIQUE = "runtime monitoring: permutation/rotation metamorphic oracle on recorded solver executions; differential check of theory='auto' against the documented rule table"
RULE = ("perm: clusters of 2-6 spheres, per-sphere x in [0.5,6], all permutations (n<=4) or 12 sampled; rot: arbitrary angle; "
        "one: single-sphere clusters; rule: 12 scatterer classes x boundary offsets x radius number types (float, numpy scalar, 0-d array). non-trivial = field not identically "
        "zero (perm/rot/one) or rule evaluated; distinct by rounded case JSON")
ASSUMPTIONS = ["per-sphere size parameter <= 6 and cluster extent k*R < 80 keep the solver inside its documented validity range",
               "adda is not installed: the discrete-dipole branch can only be observed up to DependencyMissing"]
MIN_NONTRIVIAL = 20
REQUIRED_COUNTERS = ["calc_holo", "calc_field"]
CASE_TIMEOUT = 1200

TIGHT = {"qeps1": 1e-12, "qeps2": 1e-14, "eps": 1e-12}


def cases(tier, seed):
    out = []
    rng = rng_for(seed, "c09")
    n = 36 if tier == "quick" else 700
    for i in range(n):
        o = scat.gen_optics(rng)
        ns = 2 + i % 5
        benign = bool((i // 4) % 2 == 0)
        cl = scat.gen_cluster(rng, o, ns, xmax=6.0 if ns <= 4 else 4.0, xmin=0.5, absorbing=True, gap=(0.1, 1.0) if benign else (0.02, 1.0))
        if benign:   # ordinary colloids: relative index <= 1.6, well-conditioned interaction equations
            for m_ in cl["members"]:
                m_["n"] = float(rng.uniform(1.05, 1.6)) * o["medium_index"] if not isinstance(m_["n"], list) else [float(rng.uniform(1.05, 1.6)) * o["medium_index"], m_["n"][1]]
        out.append({"id": "perm-%d" % i, "kind": "perm", "optics": o, "cluster": cl, "meth": i % 2, "tight": bool((i // 2) % 2), "benign": benign,
                    "seed": [seed, "perm", i], "cost": 10 + 4 * ns})
    for i in range(n):
        o = scat.gen_optics(rng)
        cl = scat.gen_cluster(rng, o, 2 + i % 4, xmax=5.0, xmin=0.5, absorbing=True)
        out.append({"id": "rot-%d" % i, "kind": "rot", "optics": o, "cluster": cl, "meth": i % 2, "alpha": float(rng.uniform(0, 2 * math.pi)),
                    "seed": [seed, "rot", i], "cost": 10})
    for i in range(n):
        o = scat.gen_optics(rng)
        out.append({"id": "one-%d" % i, "kind": "one", "optics": o, "sphere": scat.gen_sphere(rng, o, xmax=12.0, xmin=0.1), "meth": i % 2,
                    "seed": [seed, "one", i], "cost": 3})
    kinds = ["sphere", "layered", "spheres1", "spheres_close", "spheres_far", "spheres_boundary", "spheres_layered", "spheroid", "cylinder",
             "ellipsoid", "capsule", "janus", "csg", "scatterers", "non_scatterer", "spheres_boundary", "spheres_boundary", "spheres_exact"]
    # more spheres than the multi-sphere solver is built for (20): a clear refusal, never numbers and never a dead interpreter (F133);
    # 20 weak, well separated spheres are still computed and look like the sum of their single-sphere fields
    for i, nsp in enumerate([20, 21, 24, 27] if tier == "quick" else [19, 20, 21, 22, 24, 25, 26, 30, 40]):
        out.append({"id": "many-%d" % nsp, "kind": "many", "nsph": nsp, "meth": i % 2, "seed": [seed, "many", nsp], "cost": 12, "proc": "many-%d" % nsp})
    nr = len(kinds) * (2 if tier == "quick" else 30)
    for i in range(nr):
        out.append({"id": "rule-%d" % i, "kind": "rule", "what": kinds[i % len(kinds)], "offset": [-1e-7, 1e-7, -1e-3, 1e-3, -0.3, 0.5][(i // len(kinds)) % 6],      # (the rule is evaluated with a relative tolerance of 1e-9 since the rounding repair)
                   
                    "how": ["auto", "default", "class", "instance"][(i // 3) % 4], "seed": [seed, "rule", i], "cost": 3,
                    # the number type of the radii (0-d arrays are what xarray .sel(...).values and np.array(0.5) give)
                    "rform": ["float", "arr0_first", "np64", "arr0_all", "float"][(i // 2) % 5]})
    return out


# ------------------------------------------------------------------ child

def _field(det, s, o, th):
    from holopy.scattering import calc_field
    return calc_field(det, s, o["medium_index"], o["illum_wavelen"], o["illum_polarization"], theory=th)


@scat.guarded
def run_case(case):
    return globals()["_run_" + case["kind"]](case)


def _ms(case):
    from holopy.scattering.theory import Multisphere
    kw = {"meth": case["meth"]}
    if case.get("tight"):
        kw.update(TIGHT)
    return Multisphere(**kw)


def _run_many(case):
    import holopy as hp
    from holopy.scattering import Sphere, Spheres, Mie, calc_field
    from holopy.scattering.errors import InvalidScatterer, MultisphereFailure
    n = case["nsph"]
    sph = [Sphere(n=1.34, r=0.15, center=(0.6 * (i % 5), 0.6 * ((i // 5) % 5), 20 + 0.6 * (i // 25))) for i in range(n)]
    det = hp.detector_grid(4, 1.0)
    flags, resid = {}, {}
    try:
        a = calc_field(det, Spheres(sph), 1.33, 0.66, (1, 0), theory=_ms(case)).values
        b = calc_field(det, Spheres(sph), 1.33, 0.66, (1, 0), theory=Mie()).values
        # index 1.34 in 1.33: multiple scattering is a tiny correction to the sum of the single-sphere fields
        resid["many_weak_spheres_vs_superposition"] = relmax(a, b)
        flags["more_than_20_spheres_refused_or_right"] = True
    except (InvalidScatterer, MultisphereFailure):
        flags["more_than_20_spheres_refused_or_right"] = bool(n > 20)
    return {"resid": resid, "flags": flags, "fmax": 1.0, "n": n}


def _run_perm(case):
    from holopy.scattering.scatterer import Spheres
    rng = rng_for(*case["seed"])
    o = case["optics"]
    members = [scat.build_scatterer(m) for m in case["cluster"]["members"]]
    n = len(members)
    det = scat.build_detector(scat.gen_points(rng, n=12))
    f0 = _field(det, Spheres(members, warn=False), o, _ms(case)).values
    perms = list(itertools.permutations(range(n)))[1:] if n <= 4 else [tuple(rng.permutation(n)) for _ in range(12)]
    worst = 0.0
    for p in perms:
        f = _field(det, Spheres([members[i] for i in p], warn=False), o, _ms(case)).values
        worst = max(worst, relmax(f, f0))
    key = ("perm_tight" if case["tight"] else "perm_default") + ("_benign" if case.get("benign") else "_any")
    return {"resid": {key: fnum(worst)}, "flags": {}, "fmax": fnum(float(np.abs(f0).max())), "nperm": len(perms), "n": n}


def _run_rot(case):
    rng = rng_for(*case["seed"])
    o = case["optics"]
    case = dict(case, tight=True)
    cfg = {"optics": o, "scat": case["cluster"], "theory": {"t": "Multisphere", "kw": {}}, "det": scat.gen_points(rng, n=10)}
    s = scat.build_scatterer(cfg["scat"]); det = scat.build_detector(cfg["det"])
    F = _field(det, s, o, _ms(case)).values
    rc = scat.rotate_config(cfg, case["alpha"])
    s2 = scat.build_scatterer(rc["scat"]); det2 = scat.build_detector(rc["det"])
    F2 = _field(det2, s2, rc["optics"], _ms(case)).values
    c, s_ = math.cos(case["alpha"]), math.sin(case["alpha"])
    exp = np.stack([c * F[:, 0] - s_ * F[:, 1], s_ * F[:, 0] + c * F[:, 1], F[:, 2]], axis=1)
    resid = {"rot_tight": relmax(F2, exp)}
    # the point straight below the cluster's centre (theta = 0 in the solver's frame) and its immediate surroundings: the field is one
    # continuous vector field there, and it turns with cluster and polarization like everywhere else (F134)
    import holopy as hp
    cen0 = np.mean([m["c"] for m in case["cluster"]["members"]], axis=0)
    eps_ = 1e-7
    ring = np.array([[0, 0], [eps_, 0], [0, eps_], [-eps_, 0], [0, -eps_], [eps_ * 0.6, eps_ * 0.8]])
    def axis_pts(c0):
        return hp.detector_points(x=c0[0] + ring[:, 0], y=c0[1] + ring[:, 1], z=np.zeros(len(ring)))
    A = _field(axis_pts(cen0), s, o, _ms(case)).values
    resid["axis_continuity"] = fnum(float(np.abs(A - A[0]).max() / max(np.abs(A).max(), 1e-300)))
    cen1 = np.mean([m["c"] for m in rc["scat"]["members"]], axis=0)
    A2 = _field(axis_pts(cen1), s2, rc["optics"], _ms(case)).values[0]
    expA = np.array([c * A[0, 0] - s_ * A[0, 1], s_ * A[0, 0] + c * A[0, 1], A[0, 2]])
    resid["rot_on_axis"] = fnum(float(np.abs(A2 - expA).max() / max(np.abs(A).max(), 1e-300)))
    # the cross sections of the solution are invariant under the joint rotation (cluster and polarization together),
    # and a cluster of non-absorbing spheres absorbs nothing
    from holopy.scattering import calc_cross_sections
    a = dict(medium_index=o["medium_index"], illum_wavelen=o["illum_wavelen"])
    x0 = calc_cross_sections(s, illum_polarization=o["illum_polarization"], theory=_ms(case), **a).values
    x1 = calc_cross_sections(s2, illum_polarization=rc["optics"]["illum_polarization"], theory=_ms(case), **a).values
    resid["rot_xsec"] = fnum(float(max(abs(x1[0] - x0[0]), abs(x1[1] - x0[1]), abs(x1[2] - x0[2])) / x0[2]))
    resid["rot_g"] = fnum(float(abs(x1[3] - x0[3])))
    if all(not isinstance(m["n"], list) for m in case["cluster"]["members"]):
        resid["real_index_cluster_absorbs"] = fnum(float(abs(x0[1]) / x0[2]))
    # The extinction cross section comes from the real part of the forward amplitude (optical theorem). For clusters much smaller than
    # the wavelength that real part is a small fraction of the amplitude, so the solver's amplitude error floor (~1e-7 relative, the
    # accuracy of the translation-coefficient recurrences) is amplified by |S(0)| / |Re S(0)| in every quantity derived from C_ext.
    import holopy as hp
    from holopy.scattering import calc_scat_matrix
    S = calc_scat_matrix(hp.detector_points(theta=[0.0], phi=[0.0]), s, theory=_ms(case), **a).values[0]
    pol = np.asarray(o["illum_polarization"], dtype=float)[:2]
    fwd = pol @ S @ pol / float(pol @ pol)
    amp = float(abs(fwd) / max(abs(fwd.real), 1e-300))
    return {"resid": resid, "flags": {}, "fmax": fnum(float(np.abs(F).max())), "fwd_amplification": fnum(amp)}


def _run_one(case):
    from holopy.scattering.scatterer import Spheres
    from holopy.scattering.theory import Mie
    rng = rng_for(*case["seed"])
    o = case["optics"]
    s = scat.build_scatterer(case["sphere"])
    det = scat.build_detector(scat.gen_points(rng, n=10))
    case = dict(case, tight=True)
    a = _field(det, Spheres([s]), o, _ms(case)).values
    b = _field(det, s, o, Mie(compute_escat_radial=False)).values
    return {"resid": {"one_vs_mie": relmax(a, b)}, "flags": {}, "fmax": fnum(float(np.abs(b).max()))}


def _rule_expected(spec_kind, members=None, nlayered=False):
    return {"sphere": "Mie", "layered": "Mie", "spheres1": "Mie", "spheres_layered": "Mie", "spheroid": "Tmatrix", "cylinder": "Tmatrix",
            "ellipsoid": "DDA", "capsule": "DDA", "janus": "DDA", "csg": "DDA", "scatterers": "DDA"}.get(spec_kind)


def _run_rule(case):
    import holopy as hp
    import warnings
    from holopy.scattering import calc_holo, calc_field, Sphere, Spheres, Spheroid, Cylinder
    from holopy.scattering.scatterer import Ellipsoid, Capsule, JanusSphere_Uniform, Union, Scatterers
    from holopy.scattering.theory import Mie, Multisphere, Tmatrix
    from holopy.scattering.interface import determine_default_theory_for
    from holopy.scattering.errors import AutoTheoryFailed
    from holopy.core.errors import DependencyMissing
    rng = rng_for(*case["seed"])
    what = case["what"]
    o = scat.gen_optics(rng, pol="x")
    k = scat.kmed(o)
    det = hp.detector_grid((3, 4), 0.3)
    flags = {}
    c0 = [1.0, 1.0, 10.0]
    exp = _rule_expected(what)
    if what == "sphere":
        s = scat.build_scatterer(scat.gen_sphere(rng, o, xmax=10, center=c0))
    elif what == "layered":
        s = scat.build_scatterer(scat.gen_layered(rng, o, center=c0))
    elif what == "spheres1":
        s = Spheres([scat.build_scatterer(scat.gen_sphere(rng, o, xmax=10, center=c0))])
    elif what in ("spheres_close", "spheres_far", "spheres_boundary", "spheres_exact", "spheres_layered"):
        nsp = int(rng.integers(2, 5))
        rs = [float(loguniform(rng, 0.5, 3)) / k for _ in range(nsp)]
        if what == "spheres_exact":
            rs = [1.0] * nsp      # 30 * 1.0 is exactly representable; the pair is placed on an axis
        rmax = max(rs)
        target = {"spheres_close": float(rng.uniform(2.5, 20)), "spheres_far": float(rng.uniform(31, 60)), "spheres_exact": 30.0,
                  "spheres_layered": float(rng.uniform(2.5, 20))}.get(what, 30.0 * (1 + case["offset"]))
        # two extreme spheres define the maximum separation; the others sit strictly between them
        u = np.array([1.0, 0.0, 0.0]) if what == "spheres_exact" else rng.normal(size=3)
        u = u / np.linalg.norm(u)
        sep = target * rmax
        cs = [np.array(c0), np.array(c0) + u * sep]
        for j in range(2, nsp):
            # the other members sit between the two extreme ones, OFF the line joining them (L- and T-shaped clusters): the
            # largest centre-to-centre distance is still that of the extreme pair (checked below from the actual centres)
            w = np.cross(u, rng.normal(size=3)); w = w / np.linalg.norm(w)
            off = 0.0 if what == "spheres_exact" else float(rng.uniform(0.05, 0.45))
            cs.append(np.array(c0) + u * sep * (j - 1) / (nsp - 1) + w * sep * off)
        # keep non-overlapping: spacing along the line must exceed radii sums
        ok = all(np.linalg.norm(cs[a] - cs[b]) > rs[a] + rs[b] for a in range(nsp) for b in range(a + 1, nsp))
        if not ok:
            nsp = 2; cs = cs[:2]; rs = rs[:2]; rmax = max(rs); cs[1] = np.array(c0) + u * target * rmax
        ns = [scat.cnum(scat.gen_index(rng, o, absorbing=False)) for _ in range(nsp)]
        rform = case.get("rform", "float")
        rf = lambda j: (np.array(rs[j]) if rform == "arr0_all" or (rform == "arr0_first" and j == 0) else np.float64(rs[j]) if rform == "np64" else rs[j])
        members = [Sphere(n=ns[j], r=rf(j), center=tuple(float(v) for v in cs[j])) for j in range(nsp)]
        if what == "spheres_layered":
            members[0] = Sphere(n=(ns[0], ns[0] * 0.95), r=(rs[0] * 0.5, rs[0]), center=tuple(float(v) for v in cs[0]))
        s = Spheres(members, warn=False)
        # the rule, evaluated independently
        C = np.array([m.center for m in members], dtype=float)
        maxsep = max(float(np.sqrt(((C[a] - C[b]) ** 2).sum())) for a in range(nsp) for b in range(nsp))
        rmax_o = max(float(np.max(m.r)) for m in members)
        exp = "Mie" if what == "spheres_layered" else ("Multisphere" if maxsep <= 30 * rmax_o else "Mie")
        flags["boundary_margin_informative"] = True
    elif what == "spheroid":
        s = scat.build_scatterer(scat.gen_spheroid(rng, o, center=c0))
    elif what == "cylinder":
        s = scat.build_scatterer(scat.gen_cylinder(rng, o, center=c0))
    elif what == "ellipsoid":
        s = Ellipsoid(n=1.5, r=(0.3, 0.4, 0.5), center=tuple(c0))
    elif what == "capsule":
        s = Capsule(n=1.5, h=1.0, d=0.5, center=tuple(c0))
    elif what == "janus":
        s = JanusSphere_Uniform(n=(1.5, 1.4), r=(0.4, 0.5), center=tuple(c0))
    elif what == "csg":
        s = Union(Sphere(n=1.5, r=0.5, center=tuple(c0)), Sphere(n=1.5, r=0.4, center=(1.5, 1.0, 10.0)))
    elif what == "scatterers":
        s = Scatterers([Sphere(n=1.5, r=0.5, center=tuple(c0)), Sphere(n=1.5, r=0.4, center=(3.0, 1.0, 10.0))])
    elif what == "non_scatterer":
        obj = [5.0, "sphere", None, {"n": 1.5}, hp][int(rng.integers(0, 5))]
        try:
            determine_default_theory_for(obj)
            flags["non_scatterer_clear_error"] = False
        except AutoTheoryFailed:
            flags["non_scatterer_clear_error"] = True
        except Exception:
            flags["non_scatterer_clear_error"] = False
        # the public calculations say so too: a HoloPy error naming the problem, not an AttributeError from half-way in (F130)
        from holopy.scattering.errors import InvalidScatterer
        from holopy.scattering import calc_field, calc_cross_sections
        ok = True
        for call in (lambda: calc_holo(det, obj, o["medium_index"], o["illum_wavelen"], o["illum_polarization"]),
                     lambda: calc_field(det, obj, o["medium_index"], o["illum_wavelen"], o["illum_polarization"]),
                     lambda: calc_cross_sections(obj, o["medium_index"], o["illum_wavelen"], o["illum_polarization"])):
            try:
                call()
                ok = False
            except (InvalidScatterer, AutoTheoryFailed):
                pass
            except Exception:
                ok = False
        flags["non_scatterer_calc_raises"] = ok
        return {"resid": {}, "flags": flags, "fmax": 1.0, "expected": "AutoTheoryFailed"}
    a = dict(medium_index=o["medium_index"], illum_wavelen=o["illum_wavelen"], illum_polarization=o["illum_polarization"])
    if exp == "DDA":
        for fn in (determine_default_theory_for,):
            try:
                fn(s)
                flags["dda_missing_dependency"] = False
            except DependencyMissing:
                flags["dda_missing_dependency"] = True
        try:
            calc_holo(det, s, **a)
            flags["dda_calc_missing_dependency"] = False
        except DependencyMissing:
            flags["dda_calc_missing_dependency"] = True
        return {"resid": {}, "flags": flags, "fmax": 1.0, "expected": exp}
    with warnings.catch_warnings():
        warnings.simplefilter("ignore")
        chosen = type(determine_default_theory_for(s)).__name__
    flags["rule_table"] = bool(chosen == exp)
    how = case["how"]
    explicit = {"Mie": Mie, "Multisphere": Multisphere, "Tmatrix": Tmatrix}[exp]
    with warnings.catch_warnings():
        warnings.simplefilter("ignore")
        h_exp = calc_holo(det, s, theory=explicit(), **a)
        if how == "auto":
            h = calc_holo(det, s, theory="auto", **a)
        elif how == "default":
            h = calc_holo(det, s, **a)
        elif how == "class":
            h = calc_holo(det, s, theory=explicit, **a)   # a theory class is instantiated with defaults
        else:
            h = calc_field(det, s, theory="auto", **a)
            h_exp = calc_field(det, s, theory=explicit(), **a)
    flags["auto_equals_explicit_bitwise"] = bool(np.array_equal(h.values, h_exp.values))
    return {"resid": {}, "flags": flags, "fmax": fnum(float(np.abs(h.values).max())), "expected": exp, "chosen": chosen}


# ------------------------------------------------------------------ oracle

def _tol(k, obs=None):
    # The interaction equations and both iterative solvers are mathematically independent of the listing order;
    # numerically only summation order differs, but the iteration stops on a residual criterion (eps), so for
    # ill-conditioned (high-index, nearly touching) clusters a rounding-level change can be amplified.
    # Measured floor after the vctran fix: <= 1e-7 (accuracy of the translation-coefficient recurrences).
    if k in ("perm_tight_benign", "perm_default_benign"):
        return 1e-6
    if k == "perm_tight_any":
        return 1e-5
    if k == "perm_default_any":
        return 1e-4
    if k in ("rot_tight", "rot_on_axis"):
        return 3e-6
    if k == "axis_continuity":
        return 1e-5        # points 1e-7 apart: a smooth field changes by ~1e-7 k there
    if k == "many_weak_spheres_vs_superposition":
        return 5e-2
    if k == "rot_g":
        return 3e-5
    if k in ("rot_xsec", "real_index_cluster_absorbs"):
        # tight solver settings; extinction (optical theorem) and scattering (coefficient sum) are computed separately, and the optical
        # theorem amplifies the amplitude error floor by |S(0)|/|Re S(0)| (large only for clusters far smaller than the wavelength)
        return min(1e-3, max(3e-5, 1e-6 * (obs or {}).get("fwd_amplification", 1.0)))
    return 1e-5   # one_vs_mie, see C02


def judge(case, obs):
    out = []
    for k, v in obs["resid"].items():
        if not v <= _tol(k, obs):
            out.append({"mech": "%s.%s.meth%d" % (case["kind"], k, case.get("meth", 1)),
                        "detail": "%s=%.3e > %.1e; n=%s %s" % (k, v, _tol(k, obs), obs.get("n"), {x: case[x] for x in case if x in ("meth", "tight", "alpha")})})
    for k, v in obs["flags"].items():
        if not v:
            out.append({"mech": "rule.%s.%s" % (k, case.get("what")), "detail": "expected %s, chosen %s; offset=%s how=%s" % (obs.get("expected"), obs.get("chosen"), case.get("offset"), case.get("how"))})
    return out


def nontrivial(case, obs):
    return obs.get("fmax", 0) > 0


def evidence_extra(cases, obs):
    chosen = {}
    nperm = 0
    for c in cases:
        o = obs.get(c["id"], {}).get("obs")
        if not isinstance(o, dict):
            continue
        nperm += o.get("nperm", 0)
        if c["kind"] == "rule":
            key = "%s->%s" % (c["what"], o.get("chosen", o.get("expected")))
            chosen[key] = chosen.get(key, 0) + 1
    return {"permutations_solved": nperm, "rule_arms_observed": chosen}
