"""C02 Independent solvers agree on the field scattered by a single sphere; layered-sphere identities."""
import math

import numpy as np

from ..util import rng_for, fnum, loguniform, relmax
from .. import scat

LEVEL_TEXT = ("Runtime monitoring with a four-way differential oracle on recorded executions of the real solvers: the Fortran "
              "Lorenz-Mie amplitude matrix and near/far fields (all solver options), the multi-sphere solver on a one-sphere "
              "cluster (both interaction solvers), and the pure-Python Mie series of the lens theories are each compared "
              "with a textbook Bohren-Huffman series written independently for the checker, over relative indices (real, "
              "absorbing, <1), size parameters 1e-3..900, near and far points, all polarization angles; layered-sphere "
              "identities are checked as metamorphic relations. Ill-conditioned points (where the reference itself moves "
              "under a 1e-13 perturbation) are recognised and excluded, and counted.")
LEVEL_NOTE = "Trusted: scipy spherical Bessel functions and the ~60-line reference series (cross-validated against two independent implementations in the repository)."
TECHNIQUE = "runtime monitoring: differential oracle between independent solvers and an independent reference series on recorded executions; metamorphic layered-sphere identities"
RULE = ("smat: (m,x) with m in {real 1.05-2.5, <1, absorbing up to Im 0.5, 1+-1e-3}, x log-uniform 1e-3..900 plus decades, 40 "
        "angles; field: random points at r >= 1.05a up to far field, random polarization, 4 option combinations; ms1: "
        "one-sphere clusters x<=18, meth 0/1, default and tight tolerances; layered: 1-4 layers x 5 identity variants x size regimes {mid, Rayleigh, large, tiny core inside a strongly absorbing layer}. "
        "non-trivial = comparison executed and not skipped as ill-conditioned; distinct by rounded case JSON")
ASSUMPTIONS = ["Multisphere is compared only for per-sphere size parameter <= 18 (its single-sphere expansion order is clamped at 32)",
               "pure-Python Mie series compared for real m and x <= 300 (its documented use)"]
MIN_NONTRIVIAL = 20
REQUIRED_COUNTERS = ["calc_field", "calc_scat_matrix"]
CASE_TIMEOUT = 900


def _gen_m(rng, i):
    r = i % 6
    if r == 0:
        return [float(rng.uniform(1.05, 2.5)), 0.0]
    if r == 1:
        return [float(rng.uniform(0.75, 0.97)), 0.0]
    if r == 2:
        return [float(rng.uniform(1.05, 2.5)), float(loguniform(rng, 1e-4, 0.5))]
    if r == 3:
        return [1.0 + float(rng.choice([-1, 1])) * 1e-3, 0.0]
    if r == 4:
        return [float(rng.uniform(1.1, 1.7)), float(loguniform(rng, 1e-6, 1e-2))]
    return [float(rng.uniform(1.05, 1.8)), 0.0]


def cases(tier, seed):
    out = []
    rng = rng_for(seed, "c02")
    ns = 150 if tier == "quick" else 10000
    decades = [1e-3, 1e-2, 0.1, 1.0, 10.0, 100.0, 300.0, 900.0]
    for i in range(ns):
        x = decades[i % len(decades)] if i < 2 * len(decades) else float(loguniform(rng, 1e-3, 900))
        out.append({"id": "smat-%d" % i, "kind": "smat", "m": _gen_m(rng, i), "x": x, "nmed": float(rng.uniform(1.0, 1.6)),
                    "wl": float(rng.uniform(0.4, 0.8)), "seed": [seed, "smat", i], "cost": 1 + x / 100})
    # round-number sizes: a radius of a whole number of half wavelengths in the medium puts x on a multiple of pi, where sin x (the
    # start value of several recurrences) vanishes
    for i in range(8 if tier == "quick" else 40):
        out.append({"id": "smat-pi-%d" % i, "kind": "smat", "m": _gen_m(rng, i), "x": (1 + i % 8) * math.pi * [1.0, 0.5][(i // 8) % 2] if i < 16 else (1 + i % 30) * math.pi,
                    "nmed": [1.0, 1.33, float(rng.uniform(1.0, 1.6))][i % 3], "wl": [1.0, 0.5, float(rng.uniform(0.4, 0.8))][i % 3], "seed": [seed, "smatpi", i], "cost": 2})
    # metallic spheres (large imaginary index) up to sizes of a few hundred
    for i, (mm, xx) in enumerate([([0.16, 4.9], 50.0), ([0.16, 4.9], 120.0), ([0.2, 3.0], 300.0), ([0.16, 4.9], 200.0), ([1.3, 7.0], 20.0), ([0.05, 4.0], 2.0)]):
        out.append({"id": "smat-metal-%d" % i, "kind": "smat", "m": mm, "x": xx, "nmed": 1.33, "wl": 0.7, "seed": [seed, "smatmetal", i], "cost": 2})
    nf = 150 if tier == "quick" else 10000
    for i in range(nf):
        x = float(loguniform(rng, 1e-2, 120))
        out.append({"id": "field-%d" % i, "kind": "field", "m": _gen_m(rng, i), "x": x, "nmed": float(rng.uniform(1.0, 1.6)),
                    "wl": float(rng.uniform(0.4, 0.8)), "opts": scat.MIE_OPTS[i % 4], "pol_angle": float(rng.uniform(0, 2 * math.pi)),
                    "pol_norm": float(loguniform(rng, 0.3, 3)), "near": bool(i % 3 == 0), "seed": [seed, "field", i], "cost": 1 + x / 50,
                    # every fifth case lines its points up: along rays from the particle (same direction, doubling distances) and along
                    # the optical axis through it -- the same polar angle at different distances, one after the other in one call
                    "rays": bool(i % 5 == 2)})
    # detector points millimetres away (k r beyond 2e4), with the full and with the asymptotic radial dependence
    for i in range(12 if tier == "quick" else 300):
        out.append({"id": "field-far-%d" % i, "kind": "field", "m": _gen_m(rng, i), "x": float(loguniform(rng, 0.1, 20)), "nmed": float(rng.uniform(1.0, 1.6)),
                    "wl": float(rng.uniform(0.4, 0.8)), "opts": scat.MIE_OPTS[[0, 2, 0, 3][i % 4]], "pol_angle": float(rng.uniform(0, 2 * math.pi)),
                    "pol_norm": 1.0, "near": False, "veryfar": True, "seed": [seed, "fieldfar", i], "cost": 2,
                    # (before repair e839fc7 only the asymptotic, radial-free form was computable beyond k r = 2e4: F62)
                    })
    # distances where the spherical Bessel routine is at its weakest: (a) k r on a zero of j_1 whose j_0 is negative (4.4934.., 10.904.., ...:
    # F70), (b) k r between 1e4 and 2e4, where its continued fraction needed ~k r steps and lost up to eight digits (F71)
    for i in range(16 if tier == "quick" else 400):
        out.append({"id": "field-bessel-%d" % i, "kind": "field", "m": _gen_m(rng, i), "x": float(loguniform(rng, 0.1, 3.5)), "nmed": float(rng.uniform(1.0, 1.6)),
                    "wl": float(rng.uniform(0.4, 0.8)), "opts": scat.MIE_OPTS[[0, 2, 0, 1][i % 4]], "pol_angle": float(rng.uniform(0, 2 * math.pi)),
                    "pol_norm": 1.0, "near": False, "bessel": ["j1zero", "midfar"][i % 2], "seed": [seed, "fieldbessel", i], "cost": 2})
    nm = 60 if tier == "quick" else 2500
    for i in range(nm):
        x = float(loguniform(rng, 0.05, 18))
        m = _gen_m(rng, i)
        out.append({"id": "ms1-%d" % i, "kind": "ms1", "m": m, "x": x, "nmed": float(rng.uniform(1.0, 1.6)), "wl": float(rng.uniform(0.4, 0.8)),
                    "meth": i % 2, "tight": bool((i // 2) % 2), "as_cluster": bool((i // 4) % 2), "pol_angle": float(rng.uniform(0, 2 * math.pi)),
                    "seed": [seed, "ms1", i], "cost": 3})
    # one-sphere clusters whose size parameter is a multiple of pi (a radius of a whole number of half wavelengths: F143)
    for i in range(6 if tier == "quick" else 24):
        out.append({"id": "ms1-pi-%d" % i, "kind": "ms1", "m": _gen_m(rng, i), "x": (1 + i % 6) * math.pi, "nmed": [1.0, 1.33][i % 2], "wl": [1.0, 0.665][i % 2],
                    "meth": i % 2, "tight": True, "as_cluster": bool(i % 3), "pol_angle": float(rng.uniform(0, 2 * math.pi)), "seed": [seed, "ms1pi", i], "cost": 3})
    for i, xx in enumerate([30.0, 40.0] if tier == "quick" else [26.0, 30.0, 40.0, 60.0, 100.0]):
        out.append({"id": "ms1-large-%d" % i, "kind": "ms1", "m": [1.2, 0.0], "x": xx, "nmed": 1.0, "wl": 0.6, "meth": 1, "tight": True, "as_cluster": True,
                    "pol_angle": 0.4, "seed": [seed, "ms1large", i], "cost": 40})
    # layered spheres one of whose layer boundaries puts m_l x_l next to a zero of a Riccati-Bessel function psi_n (where the product
    # recursion for psi_n xi_n used to lose digits for all higher orders, F69), judged against the arbitrary-precision series
    for i in range(12 if tier == "quick" else 300):
        out.append({"id": "layacc-%d" % i, "kind": "layacc", "nlayers": 2 + i % 3, "order": (1 + i % 5) if i % 6 else 0, "delta": ([1e-5, 1e-7, 1e-6, 1e-9][i % 4] * (-1) ** (i // 4)) if i % 6 else [0.0, 1e-13][(i // 6) % 2],      # (order 0: m_l x_l on a multiple of pi, F144)
                    "seed": [seed, "layacc", i], "cost": 6})
    nl = 100 if tier == "quick" else 5000
    for i in range(nl):
        xr = ["mid", "mid", "small", "mid", "large", "mid", "tinycore"][(i // 5) % 7]
        out.append({"id": "lay-%d" % i, "kind": "layered", "variant": ["same_index", "merge_adjacent", "medium_outer", "thickness", "same_index_all"][i % 5],
                    "nlayers": 1 + (i // 5) % 4, "seed": [seed, "lay", i], "xregime": xr,
                    # at the Rayleigh end the layered recursion loses relative accuracy (known finding F64): what the cross-section
                    # contract would say there is reported by this check's own oracle under the regime's mechanism name
                    # (likewise for the regime of F197 -- two nested layers far below the wavelength -- where the result is not a number:
                    # the check's own oracle reports that under the regime's mechanism name)
                    "allow_events": ["contract.calc_cross_sections.cabs_negative", "contract.calc_cross_sections.energy"] if xr == "small" else
                                    (["contract.calc_*.nonfinite", "contract.calc_cross_sections.cabs_negative", "contract.calc_cross_sections.energy"] if xr == "tinycore" else [])})
    return out


# ------------------------------------------------------------------ child

def run_case(case):
    return globals()["_run_" + case["kind"]](case)


def _cond(fn, m, x, ref):
    """conditioning of the reference: relative movement under 1e-13 perturbations of x and m"""
    a = fn(m, x * (1 + 1e-13))
    b = fn(m * (1 + 1e-13), x)
    sc = max(float(np.abs(ref).max()), 1e-300)
    return max(float(np.abs(a - ref).max()), float(np.abs(b - ref).max())) / sc


def _run_smat(case):
    import holopy as hp
    from holopy.scattering import calc_scat_matrix, Sphere, Mie
    from holopy.scattering.theory.mielensfunctions import MieScatteringMatrix
    from vf import refmie
    rng = rng_for(*case["seed"])
    m = complex(*case["m"]); x = case["x"]
    if m.imag == 0:
        m = m.real
    nmed, wl = case["nmed"], case["wl"]
    k = 2 * math.pi * nmed / wl
    theta = np.concatenate([[0.0, 1e-6, math.pi - 1e-6, math.pi, math.pi / 2], rng.uniform(0, math.pi, 35)])
    phi = rng.uniform(0, 2 * math.pi, theta.size)
    pts = hp.detector_points(theta=theta, phi=phi)
    s = Sphere(n=m * nmed, r=x / k, center=(0, 0, 0))
    S = calc_scat_matrix(pts, s, nmed, wl, theory=Mie()).values
    xe = float(k * (x / k))       # the size parameter HoloPy actually sees
    me = (m * nmed) / nmed
    f = lambda mm, xx: np.concatenate(refmie.S12(mm, xx, theta))
    ref = f(me, xe)
    S1r, S2r = ref[:theta.size], ref[theta.size:]
    sc = max(float(np.abs(ref).max()), 1e-300)
    resid = {}
    cond = _cond(f, me, xe, ref)
    resid["S1"] = fnum(float(np.abs(S[:, 1, 1] - S1r).max()) / sc)
    resid["S2"] = fnum(float(np.abs(S[:, 0, 0] - S2r).max()) / sc)
    resid["offdiag"] = fnum(float(max(np.abs(S[:, 0, 1]).max(), np.abs(S[:, 1, 0]).max())) / sc)
    # by-label view agrees with positional
    flags = {}
    if xe <= 300:
        try:
            # the class follows van de Hulst (time factor exp(+iwt), absorbing index n - ik): its result for the conjugate
            # index is the conjugate of the Bohren-Huffman amplitude; MieLens hands it the conjugate of HoloPy's index
            mv = float(np.real(me)) if np.isreal(me) else complex(np.conj(me))
            sp = MieScatteringMatrix("perpendicular", mv, xe)(theta)
            pl = MieScatteringMatrix("parallel", mv, xe)(theta)
            resid["pymie"] = fnum(max(float(np.abs(np.conj(sp) - S1r).max()), float(np.abs(np.conj(pl) - S2r).max())) / sc)
            resid["pymie_vs_fortran"] = fnum(max(float(np.abs(np.conj(sp) - S[:, 1, 1]).max()), float(np.abs(np.conj(pl) - S[:, 0, 0]).max())) / sc)
        except RuntimeError as e:
            flags["pymie_raised_runtimeerror"] = False
        except IndexError as e:
            # every coefficient came out nan (spherical Bessel functions of the complex argument overflow): Im(m) x > ~700
            flags["pymie_handles_metallic_sphere" if abs(np.imag(me)) * xe > 600 else "pymie_raised_indexerror"] = False
    return {"resid": resid, "flags": flags, "cond": fnum(cond), "x": xe}


def _run_field(case):
    import holopy as hp
    from holopy.scattering import calc_field, Sphere, Mie
    from vf import refmie
    rng = rng_for(*case["seed"])
    m = complex(*case["m"]); x = case["x"]
    if m.imag == 0:
        m = m.real
    nmed, wl = case["nmed"], case["wl"]
    k = 2 * math.pi * nmed / wl
    r = x / k
    n = 24
    c = np.array([float(rng.uniform(-1, 1)), float(rng.uniform(-1, 1)), 0.0])
    if case["near"]:
        dist = r * rng.uniform(1.05, 3.0, n) + rng.uniform(0, 0.05, n) / k
    elif case.get("veryfar"):
        dist = loguniform(rng, 2.5e4, 1e6, n) / k
    else:
        dist = r * 1.05 + loguniform(rng, 0.5, 500, n) / k * 10
    if case.get("bessel") == "j1zero":
        from scipy.optimize import brentq
        from scipy.special import spherical_jn
        zeros = [brentq(lambda t: spherical_jn(1, t), (q + 0.5) * math.pi - 1.2, (q + 0.5) * math.pi + 0.3) for q in range(1, 9)]    # tan t = t
        zeros = [z for z in zeros if z > x * 1.05]
        dist = np.array([zeros[j % len(zeros)] * (1 + [0.0, 1e-12, -1e-9, 1e-6, -1e-4, 1e-15][j % 6]) for j in range(n)]) / k
    elif case.get("bessel") == "midfar":
        dist = loguniform(rng, 8e3, 1.97e4, n) / k
    u = rng.normal(size=(n, 3)); u /= np.linalg.norm(u, axis=1, keepdims=True)
    if case.get("bessel") == "j1zero":
        c = np.zeros(3)      # the distance is then exactly the one chosen
    if case.get("rays") and not case.get("veryfar"):
        # four rays of four points (distance doubling, so the direction is bit-identical) and eight points on the axis through the
        # particle, in front of and behind it; the particle sits at the origin for the rays to stay exact
        if rng.random() < 0.5:
            c = np.zeros(3)
        d0 = dist[:4]
        for j in range(4):
            u[4 * j:4 * j + 4] = u[4 * j]
            dist[4 * j:4 * j + 4] = d0[j] * np.array([1.0, 2.0, 4.0, 8.0])[rng.permutation(4) if j % 2 else np.arange(4)]
        u[16:] = np.array([0.0, 0.0, 1.0]) * np.where(np.arange(8) % 3 == 2, -1.0, 1.0)[:, None]
    P = c + u * dist[:, None]          # detector points anywhere around the particle (also behind it)
    pa, pn = case["pol_angle"], case["pol_norm"]
    pol = (pn * math.cos(pa), pn * math.sin(pa))
    d = hp.detector_points(x=P[:, 0], y=P[:, 1], z=P[:, 2])
    opts = case["opts"]
    f = calc_field(d, Sphere(n=m * nmed, r=r, center=tuple(c)), nmed, wl, pol, theory=Mie(**opts)).values
    X, Y, Z = k * (P[:, 0] - c[0]), k * (P[:, 1] - c[1]), k * (c[2] - P[:, 2])
    kr = np.sqrt(X ** 2 + Y ** 2 + Z ** 2)
    th = np.arctan2(np.hypot(X, Y), Z)
    ph = np.arctan2(Y, X)
    up = np.array([math.cos(pa), math.sin(pa)])
    xe = float(k * r); me = (m * nmed) / nmed

    def fn(mm, xx):
        return refmie.bh_fields(mm, xx, kr, th, ph, up, radial=opts.get("compute_escat_radial", True),
                                far=not opts.get("full_radial_dependence", True)) * np.exp(-1j * k * c[2])
    ref = fn(me, xe)
    cond = _cond(fn, me, xe, ref)
    sc = max(float(np.abs(ref).max()), 1e-300)
    # points beyond k r ~ 1.98e4 are reported separately (there the Fortran Bessel routine used to give up, F62 / repair e839fc7)
    beyond = kr > 1.98e4
    resid = {}
    # each point is judged against the field amplitude at ITS distance (the field falls off as 1/r: an error that is small next to
    # the nearest point's field can be the whole field of a far one); the floor is a hundredth of the 1/r envelope, for points in a minimum
    amp = np.abs(ref).max(axis=0)
    env = float((amp * kr).max()) / kr
    err = np.abs(f - ref.T).max(axis=1) / np.maximum(amp, 1e-2 * env)
    if (~beyond).any():
        resid["field_xyz"] = fnum(float(err[~beyond].max()))
    if beyond.any():
        resid["field_xyz@beyond"] = fnum(float(err[beyond].max()))
    return {"resid": resid, "flags": {}, "cond": fnum(cond), "x": xe, "krmax": float(kr.max()), "full_radial": bool(opts.get("full_radial_dependence", True)), "radial": bool(opts.get("compute_escat_radial", True))}


def _run_ms1(case):
    import holopy as hp
    from holopy.scattering import calc_field, calc_scat_matrix, Sphere, Spheres, Mie, Multisphere
    rng = rng_for(*case["seed"])
    m = complex(*case["m"]); x = case["x"]
    if m.imag == 0:
        m = m.real
    nmed, wl = case["nmed"], case["wl"]
    k = 2 * math.pi * nmed / wl
    r = x / k
    c = (float(rng.uniform(0, 2)), float(rng.uniform(0, 2)), float(r * 1.2 + rng.uniform(0.5, 20)))
    s = Sphere(n=m * nmed, r=r, center=c)
    kw = {"meth": case["meth"]}
    if case["tight"]:
        kw.update(qeps1=1e-12, qeps2=1e-14, eps=1e-12)
    ms = Multisphere(**kw)
    target = Spheres([s]) if case["as_cluster"] else s
    pa = case["pol_angle"]
    pol = (math.cos(pa), math.sin(pa))
    d = hp.detector_grid(shape=(5, 6), spacing=(0.37, 0.29))
    fm = calc_field(d, s, nmed, wl, pol, theory=Mie(compute_escat_radial=False))
    fs = calc_field(d, target, nmed, wl, pol, theory=ms)
    resid = {}
    key = "tight" if case["tight"] else "default"
    resid["ms1_field_" + key] = relmax(fs, fm)
    th = rng.uniform(0, math.pi, 12); ph = rng.uniform(0, 2 * math.pi, 12)
    pts = hp.detector_points(theta=th, phi=ph)
    sm = calc_scat_matrix(pts, s, nmed, wl, theory=Mie())
    ss = calc_scat_matrix(pts, target, nmed, wl, theory=ms)
    resid["ms1_smat_" + key] = relmax(ss, sm)
    out = {"resid": resid, "flags": {}, "cond": 0.0, "x": float(k * r)}
    if not case["tight"] and max(resid.values()) > 1e-2:
        # with the default truncation tolerance the series of a single sphere can stop one order short of a sharp resonance (known finding
        # F147): named as such only if the same sphere with a tight tolerance is right -- any other disagreement keeps the plain name
        mt = Multisphere(meth=case["meth"], qeps1=1e-12, qeps2=1e-14, eps=1e-12)
        out["tight_resolves_it"] = bool(relmax(calc_field(d, target, nmed, wl, pol, theory=mt), fm) <= 1e-5 and relmax(calc_scat_matrix(pts, target, nmed, wl, theory=mt), sm) <= 1e-5)
    return out


def _run_layacc(case):
    from scipy.optimize import brentq
    from scipy.special import spherical_jn
    from holopy.scattering import Sphere, Mie
    from vf import refmp
    rng = rng_for(*case["seed"])
    nl, n0 = case["nlayers"], case["order"]
    # zeros of psi_n0 between 3 and 14
    grid = np.linspace(3.0, 14.0, 2000)
    v = spherical_jn(n0, grid)
    zs = [brentq(lambda t: spherical_jn(n0, t), grid[j], grid[j + 1]) for j in range(len(grid) - 1) if v[j] * v[j + 1] < 0]
    if n0 == 0:
        zs = [q * math.pi for q in range(1, 5)]           # exact doubles nearest to multiples of pi
    z0 = zs[int(rng.integers(0, len(zs)))]
    ms = [float(rng.uniform(1.05, 2.0)) for _ in range(nl)]
    j = int(rng.integers(0, nl))                       # the layer whose outer boundary sits on the zero
    xj = z0 * (1 + case["delta"]) / ms[j]
    xs = sorted([xj] + [float(xj * f) for f in (list(rng.uniform(0.3, 0.9, j)) + list(rng.uniform(1.1, 1.8, nl - 1 - j)))])
    nmed, wl = float(rng.uniform(1.0, 1.5)), float(rng.uniform(0.4, 0.8))
    k = 2 * math.pi * nmed / wl
    s = Sphere(n=tuple(m * nmed for m in ms), r=tuple(x / k for x in xs), center=(0, 0, 5))
    co = Mie()._scat_coeffs(s, k, nmed)
    xs_seen = [k * (x / k) for x in xs]                 # the size parameters as the library computes them
    ms_seen = [(m * nmed) / nmed for m in ms]
    an, bn = refmp.coeffs(ms_seen, xs_seen, nmax=co.shape[1], dps=80)
    ref = np.array([an, bn])
    return {"resid": {"layered_coeffs_vs_mp": fnum(float(np.abs(co - ref).max()))}, "flags": {}, "cond": 0.0, "x": float(xs[-1]), "orders": [int(co.shape[1])]}


def _run_layered(case):
    import holopy as hp
    from holopy.scattering import calc_field, calc_scat_matrix, calc_cross_sections, Sphere, Mie
    from holopy.scattering.scatterer import LayeredSphere
    rng = rng_for(*case["seed"])
    o = scat.gen_optics(rng)
    k = scat.kmed(o)
    nl = case["nlayers"]
    # layer size parameters from the Rayleigh end to a couple of hundred (every third case at an end of the range)
    lo, hi = {"mid": (0.3, 12.0), "small": (1e-3, 0.05), "large": (20.0, 200.0), "tinycore": (15.0, 60.0)}[case.get("xregime", "mid")]
    if case.get("xregime") == "tinycore":
        nl = max(nl, 2)
    xs = np.sort(loguniform(rng, lo, hi, nl)) * (1 + 0.07 * np.arange(nl))
    if case.get("xregime") == "tinycore":
        # a core far below the wavelength (a seed, a defect) inside a large sphere
        xs[0] = float(loguniform(rng, 1e-6, 3e-4))
    rs = [float(v / k) for v in xs]
    c = (float(rng.uniform(0, 2)), float(rng.uniform(0, 2)), float(rng.uniform(6, 20)) + 2.2 * rs[-1])      # the detector stays outside the (possibly grown) sphere
    ns = [scat.cnum(scat.gen_index(rng, o, absorbing=(rng.random() < 0.3))) for _ in range(nl)]
    if case.get("xregime") == "tinycore" and rng.random() < 0.7:
        # ... strongly absorbing around the core (soot-like): Im(m) x of the layer between 15 and 90
        j_ = 1 if rng.random() < 0.6 else nl - 1
        im_ = float(rng.uniform(15, 90)) / float(xs[j_]) * o["medium_index"]
        ns[j_] = complex(float(np.real(ns[j_])), im_)
        if rng.random() < 0.5:
            ns[0] = ns[j_]
    v = case["variant"]
    if v == "same_index_all":
        # every layer shares one index -> homogeneous sphere of the outer radius
        a = Sphere(n=tuple([ns[0]] * max(nl, 2)), r=tuple(rs if nl > 1 else [rs[0] * 0.5, rs[0]]), center=c)
        b = Sphere(n=ns[0], r=rs[-1] if nl > 1 else rs[0], center=c)
    elif v == "same_index":
        # split one layer of a layered sphere in two with the same index
        j = int(rng.integers(0, nl))
        inner = rs[j - 1] if j > 0 else 0.0
        mid = inner + (rs[j] - inner) * float(rng.uniform(0.2, 0.8))
        a = Sphere(n=tuple(ns[:j + 1] + [ns[j]] + ns[j + 1:]), r=tuple(rs[:j] + [mid] + rs[j:]), center=c)
        b = Sphere(n=tuple(ns) if nl > 1 else ns[0], r=tuple(rs) if nl > 1 else rs[0], center=c)
    elif v == "merge_adjacent":
        nn = ns + [ns[-1]]
        rr = rs + [rs[-1] * float(rng.uniform(1.1, 1.6))]
        a = Sphere(n=tuple(nn), r=tuple(rr), center=c)
        b = Sphere(n=tuple(ns[:-1] + [ns[-1]]) if nl > 1 else ns[0], r=tuple(rs[:-1] + [rr[-1]]) if nl > 1 else rr[-1], center=c)
    elif v == "medium_outer":
        a = Sphere(n=tuple(ns + [o["medium_index"]]), r=tuple(rs + [rs[-1] * float(rng.uniform(1.1, 2.0))]), center=c)
        b = Sphere(n=tuple(ns) if nl > 1 else ns[0], r=tuple(rs) if nl > 1 else rs[0], center=c)
    else:  # thickness form
        ts = [rs[0]] + [rs[i] - rs[i - 1] for i in range(1, nl)]
        nn = ns if nl > 1 else [ns[0], ns[0]]
        if nl == 1:
            ts = [rs[0] * 0.5, rs[0] * 0.5]; rs = [rs[0] * 0.5, rs[0] * 0.5 + rs[0] * 0.5]
        a = LayeredSphere(n=tuple(nn), t=tuple(ts), center=c)
        b = Sphere(n=tuple(nn), r=tuple(np.cumsum(ts).tolist()), center=c)
    d = hp.detector_grid(shape=(5, 4), spacing=(0.31, 0.43))
    pol = o["illum_polarization"]
    fa = calc_field(d, a, o["medium_index"], o["illum_wavelen"], pol, theory=Mie())
    fb = calc_field(d, b, o["medium_index"], o["illum_wavelen"], pol, theory=Mie())
    resid = {"layered_field": relmax(fa, fb)}
    pts = hp.detector_points(theta=rng.uniform(0, math.pi, 8), phi=rng.uniform(0, 6.28, 8))
    resid["layered_smat"] = relmax(calc_scat_matrix(pts, a, o["medium_index"], o["illum_wavelen"], theory=Mie()),
                                   calc_scat_matrix(pts, b, o["medium_index"], o["illum_wavelen"], theory=Mie()))
    ca = calc_cross_sections(a, o["medium_index"], o["illum_wavelen"], pol, theory=Mie()).values
    cb = calc_cross_sections(b, o["medium_index"], o["illum_wavelen"], pol, theory=Mie()).values
    resid["layered_xsec"] = fnum(max(float(np.abs(ca[:3] - cb[:3]).max() / np.abs(cb[2])), float(abs(ca[3] - cb[3]))))
    flags = {"layered_absorption_nonnegative": bool(ca[1] >= -1e-10 * ca[2] and cb[1] >= -1e-10 * cb[2])}
    # the series coefficients themselves (hooked state: what Mie hands to the Fortran field code). Over the orders both spheres sum they
    # must agree to rounding; a sphere with a larger outer radius sums more orders (Wiscombe's cut follows the outer radius), and what
    # those extra orders hold is the truncation error of the smaller sphere's series -- the accuracy both field calculations can have
    th_ = Mie()
    coa, cob = th_._scat_coeffs(a, k, o["medium_index"]), th_._scat_coeffs(b, k, o["medium_index"])
    nc = min(coa.shape[1], cob.shape[1])
    resid["layered_coeffs"] = fnum(float(np.abs(coa[:, :nc] - cob[:, :nc]).max()))
    longer = coa if coa.shape[1] > nc else cob
    tail = float(np.abs(longer[:, nc:]).max()) if longer.shape[1] > nc else 0.0
    # size parameters of the layers of the finer of the two spheres (regime of F197: at least two of them below 1e-5)
    xa = sorted(float(v) * k for v in np.atleast_1d(a.r))
    return {"resid": resid, "flags": flags, "cond": 0.0, "x": float(xs[-1]), "tail": fnum(tail), "orders": [int(coa.shape[1]), int(cob.shape[1])],
            "x_second_smallest": xa[1] if len(xa) > 1 else xa[0], "nonfinite": bool(not np.all(np.isfinite(fa.values)))}


# ------------------------------------------------------------------ oracle

TOL = {"S1": 1e-9, "S2": 1e-9, "offdiag": 1e-12, "pymie": 1e-6, "pymie_vs_fortran": 1e-6, "field_xyz": 1e-7,
       "ms1_field_tight": 1e-5, "ms1_smat_tight": 1e-5, "layered_field": 2e-9, "layered_smat": 2e-9, "layered_xsec": 2e-9, "layered_coeffs": 1e-10, "layered_coeffs_vs_mp": 5e-12}


def _tol(k, obs):
    if k in ("ms1_field_default", "ms1_smat_default"):
        return 1e-2      # default truncation tolerance qeps1=1e-5 acts on efficiencies (quadratic): amplitudes good to ~3*sqrt(qeps1)
    if k in ("layered_coeffs", "layered_coeffs_vs_mp"):
        return TOL[k]
    if k.startswith("layered_"):
        # rounding in the recurrences grows with the number of orders ~ x; where the two spheres sum different numbers of orders, the
        # first neglected coefficients of the shorter series (measured, see the child) bound what the two results can share
        return TOL[k] * max(1.0, obs.get("x", 1.0) / 10.0) + 10.0 * min(obs.get("tail", 0.0), 1e-5)
    return TOL[k]


def judge(case, obs):
    out = []
    desc = {k: case[k] for k in case if k not in ("seed", "id", "cost")}
    for k, v in obs["resid"].items():
        where = k.split("@")[1] if "@" in k else ""
        k = k.split("@")[0]
        t = _tol(k, obs)
        if k in ("S1", "S2", "pymie", "field_xyz") and obs["cond"] > t / 10:
            continue    # reference is ill-conditioned here: recognised, not tolerated, not counted as held
        if not v <= t:
            regime = ""
            if case["kind"] == "field" and where == "beyond":
                regime = ".beyond_kr_2e4"
            if case["kind"] == "field" and case.get("bessel"):
                regime += "." + case["bessel"]
            if case["kind"] == "ms1" and obs.get("x", 0) > 25:
                regime = ".sphere_beyond_order_32"
            elif case["kind"] == "ms1" and obs.get("tight_resolves_it"):
                regime = ".default_truncation_misses_resonance"
            if case["kind"] == "layered" and obs.get("x", 1.0) < 0.1:
                regime = ".size_parameter_below_0.1"
            if case["kind"] == "layered" and obs.get("nonfinite") and obs.get("x_second_smallest", 1.0) < 1e-5:
                regime = ".two_nested_layers_below_x_1e-5_not_a_number"
            out.append({"mech": "%s.%s%s" % (case["kind"], k, regime), "detail": "%s=%.3e > %.1e (reference conditioning %.1e); %s" % (k, v, t, obs["cond"], desc)})
    for k, v in obs["flags"].items():
        if not v:
            regime = ".size_parameter_below_0.1" if case["kind"] == "layered" and obs.get("x", 1.0) < 0.1 else ""
            if case["kind"] == "layered" and obs.get("nonfinite") and obs.get("x_second_smallest", 1.0) < 1e-5:
                regime = ".two_nested_layers_below_x_1e-5_not_a_number"
            out.append({"mech": "%s.%s%s" % (case["kind"], k, regime), "detail": "%s" % desc})
    return out


def nontrivial(case, obs):
    if case["kind"] in ("smat", "field"):
        return obs["cond"] <= 1e-7
    return True


def evidence_extra(cases, obs):
    ill = sum(1 for c in cases if c["kind"] in ("smat", "field") and isinstance(obs.get(c["id"], {}).get("obs"), dict) and obs[c["id"]]["obs"]["cond"] > 1e-7)
    xs = [obs[c["id"]]["obs"]["x"] for c in cases if isinstance(obs.get(c["id"], {}).get("obs"), dict)]
    return {"skipped_ill_conditioned": ill, "size_parameter_range": [min(xs), max(xs)] if xs else None}
