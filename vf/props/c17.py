"""C17 Propagation is a norm-bounded linear group action; fft/ifft are inverses."""
import math

import numpy as np

from ..util import rng_for, fnum, loguniform, relmax

NEEDS_FORTRAN = False
LEVEL_TEXT = ("Runtime monitoring of the real fft/ifft/propagate: every image shape from 2x2 to 8x8 (exhaustive, both "
              "array layouts) plus random shapes up to 64x64, real and complex data, spacings on both sides of half the "
              "medium wavelength, distances of both signs over six decades, scalar/list distances, cfsp and gradient "
              "filter; contract monitors check dims/coords/attrs/name and argument purity on every call, and an offline "
              "oracle checks the inverse, identity, additivity, inverse-distance, linearity, energy and stack relations "
              "between separately executed calls.")
LEVEL_NOTE = "Trusted: numpy FFT as arithmetic substrate only (oracles are relations between executions of the code under test), xarray."
TECHNIQUE = "runtime monitoring: contract monitors on fft/ifft/propagate + metamorphic relations between recorded executions"
RULE = ("fftinv: all 49 shapes 2..8 x 2..8 in both layouts ((x,y) and (z,x,y)) with real and complex data (exhaustive "
        "sub-space) + random shapes <=64; prop: random images with spacing/lambda_med in [0.1, 3], |d|/lambda_med "
        "log-uniform in [1e-2, 1e4], both signs, integer pixel coordinates, images without z coordinate / with an extra coordinate, plain and 1-D arrays, lists with/without 0 and repeats, cfsp in {0,1,3}, gradient filter. "
        "non-trivial = image not constant and >=1 relation residual computed; distinct by rounded case JSON")
ASSUMPTIONS = ["propagate takes xarray images as produced by HoloPy; fft/ifft also plain arrays (first two axes)",
               "shapes with a singleton image axis are out of the property's range (2x2..64x64)"]
MIN_NONTRIVIAL = 20
REQUIRED_COUNTERS = ["fft", "ifft", "propagate"]


def cases(tier, seed):
    out = []
    k = 0
    for nx in range(2, 9):
        for ny in range(2, 9):
            for layout in ("xy", "zxy"):
                for cplx in (False, True):
                    out.append({"id": "fftinv-ex-%d" % k, "kind": "fftinv", "shape": [nx, ny], "layout": layout,
                                "complex": cplx, "origin": [0.0, 0.0], "seed": [seed, "ex", k], "exhaustive": True})
                    k += 1
    rng = rng_for(seed, "c17")
    nf = 200 if tier == "quick" else 3000
    for i in range(nf):
        shape = [int(rng.integers(2, 65)), int(rng.integers(2, 65))]
        org = [0.0, 0.0] if i % 3 else [float(rng.uniform(-5, 5)), float(rng.uniform(-5, 5))]
        out.append({"id": "fftinv-r-%d" % i, "kind": "fftinv", "shape": shape, "layout": ["xy", "zxy", "zxy_illum", "xyz"][i % 4],
                    "complex": bool(i % 2), "origin": org, "seed": [seed, "fr", i], "crop": bool(i % 3 == 0),
                    # pixel units: integer spacing, so the image's coordinates are integers (data_grid(arr, spacing=1))
                    "int_spacing": [None, None, None, None, None, [1, 1], None, None, None, None, None, [2, 3]][i % 12]})
    npz = 400 if tier == "quick" else 8000
    for i in range(npz):
        small = rng.random() < 0.5
        shape = [int(rng.integers(2, 9)), int(rng.integers(2, 9))] if small else [int(rng.integers(2, 65)), int(rng.integers(2, 65))]
        lam = float(loguniform(rng, 0.3, 0.8)); nmed = float(rng.uniform(1.0, 1.6))
        lm = lam / nmed
        sp = [float(lm * loguniform(rng, 0.1, 3)), float(lm * loguniform(rng, 0.1, 3))]
        if i % 4 == 0:
            sp[1] = sp[0]
        ds = [float(lm * loguniform(rng, 1e-2, 1e4) * (1 if rng.random() < 0.6 else -1)) for _ in range(3)]
        if i % 9 == 4:
            # pixel units: integer spacing (integer coordinates), wavelength a few pixels
            sp = [[1, 1], [2, 2], [1, 2]][(i // 9) % 3]
            lam = float(nmed * rng.uniform(0.7, 4.0)); lm = lam / nmed
            ds = [float(lm * loguniform(rng, 1e-2, 1e3) * (1 if rng.random() < 0.6 else -1)) for _ in range(3)]
        out.append({"id": "prop-%d" % i, "kind": "prop", "shape": shape, "spacing": sp, "wavelen": lam, "index": nmed,
                    "complex": bool(i % 2), "d": ds, "cfsp": [1, 3][i % 2], "gf": float(lm * rng.uniform(0.2, 3)),
                    "optics_in": ["attrs", "args", "mixed"][i % 3], "origin_shift": bool(i % 5 == 0),
                    "seed": [seed, "prop", i], "cost": 3})
    return out


# ------------------------------------------------------------------ child

def child_setup(shard):
    """M-contract on fft / ifft / propagate."""
    from vf import monitors as M
    import holopy
    import holopy.core.process.fourier as F
    import holopy.propagation.convolution_propagation as CP

    def post_fft(inverse):
        def post(args, kwargs, res):
            import xarray as xr
            out = []
            data = args[0]
            if not isinstance(data, xr.DataArray):
                return out
            a, b = (("m", "n"), ("x", "y")) if inverse else (("x", "y"), ("m", "n"))
            exp_dims = tuple(b[a.index(d)] if d in a else d for d in data.dims)
            if tuple(res.dims) != exp_dims:
                out.append(("dims", "%r -> %r" % (data.dims, res.dims)))
            if res.shape != data.shape:
                out.append(("shape", "%r -> %r" % (data.shape, res.shape)))
            if res.name != data.name:
                out.append(("name", repr(res.name)))
            if M.digest(dict(res.attrs)) != M.digest(dict(data.attrs)):
                out.append(("attrs", "attrs changed"))
            for d in data.dims:
                if d not in a and d in data.coords and not np.array_equal(res[d].values, data[d].values):
                    out.append(("other_coords", d))
            return out
        return post

    def post_prop(args, kwargs, res):
        out = []
        names = ["data", "d", "medium_index", "illum_wavelen", "cfsp", "gradient_filter"]
        am = dict(zip(names, args)); am.update(kwargs)
        data, d = am["data"], am["d"]
        if np.isscalar(d) and d == 0:
            if res is not data and not _same_image(res, data, {k: am.get(k) for k in ("medium_index", "illum_wavelen")}):
                out.append(("zero_identity", "propagate(x, 0) is not x"))
            return out
        for c in ("x", "y"):
            if not np.array_equal(res[c].values, data[c].values):
                out.append(("coords", "%s changed" % c))
        nd = 1 if np.ndim(d) == 0 else len(d)
        if "z" not in res.dims:
            out.append(("z_dim", repr(res.dims)))
        if res.name != data.name:
            out.append(("name", repr(res.name)))
        for k, v in data.attrs.items():
            if k == "medium_index" and am.get("medium_index") is not None:
                v = am["medium_index"]
            if k == "illum_wavelen" and am.get("illum_wavelen") is not None:
                v = am["illum_wavelen"]
            if k not in res.attrs or M.digest(res.attrs[k]) != M.digest(v):
                out.append(("attrs", "%s: %r -> %r" % (k, v, res.attrs.get(k))))
        if not np.all(np.isfinite(res.values)):
            out.append(("nonfinite", ""))
        return out

    M.wrap_in_modules("fft", F.fft, post=post_fft(False))
    M.wrap_in_modules("ifft", F.ifft, post=post_fft(True))
    M.wrap_in_modules("propagate", CP.propagate, post=post_prop)


def _amp(case):
    sd = case.get("seed") or [0]
    return [1.0, 1e-9, 1.0, 1e6, 1e-13, 1.0][int(sd[-1]) % 6]


def _image(case, rng, spacing=(0.1, 0.13), optics=True):
    import xarray as xr
    from holopy.core.metadata import data_grid
    nx, ny = case["shape"]
    extra = case.get("layout") == "zxy_illum"
    shp = (nx, ny, 2) if extra else (nx, ny)
    a = rng.normal(size=shp)
    if case.get("complex"):
        a = a + 1j * rng.normal(size=shp)
    # overall amplitude: ordinary, very weak fields (SI-like units), very large -- every identity here is homogeneous
    a = a * _amp(case)
    kw = dict(medium_index=1.33, illum_wavelen=0.66, illum_polarization=(1, 0), noise_sd=0.05) if optics else {}
    im = data_grid(a, spacing=spacing, extra_dims={"illumination": ["red", "green"]} if extra else None, name="img7", **kw)
    org = case.get("origin", [0.0, 0.0])
    if org[0] or org[1]:
        im = im.assign_coords(x=im.x.values + org[0], y=im.y.values + org[1])
        im.attrs = dict(im.attrs)
    # fields beyond the four standard ones travel with the image too
    im.attrs = dict(im.attrs, exposure_time=0.02, camera="cam3", frame=12)
    if case.get("layout") == "xy":
        im = im.isel(z=0, drop=True)
    elif case.get("layout") == "xyz":
        im = im.transpose("x", "y", "z")         # the order in which propagate() returns its result
    return im


def _same_image(a, b, overrides=None):
    """a is the image b: same name, dimensions, coordinates, values and metadata -- except that optics handed to the call
    (medium_index, illum_wavelen) are what the result carries"""
    from vf.monitors import digest
    if a is b:
        return True
    if a.dims != b.dims or a.name != b.name or not np.array_equal(a.values, b.values) or set(a.coords) != set(b.coords):
        return False
    if any(not np.array_equal(a[c].values, b[c].values) for c in a.coords):
        return False
    want = dict(b.attrs)
    for k, v in (overrides or {}).items():
        if v is not None and k in ("medium_index", "illum_wavelen"):
            want[k] = v
    return set(a.attrs) == set(want) and all(digest(a.attrs[k]) == digest(want[k]) or (np.ndim(want[k]) == 0 and np.ndim(a.attrs[k]) == 0 and a.attrs[k] == want[k]) for k in want)


def run_case(case):
    return globals()["_run_" + case["kind"]](case)


def _run_fftinv(case):
    from holopy.core.process import fft, ifft
    rng = rng_for(*case["seed"])
    im = _image(case, rng, spacing=(float(rng.uniform(0.05, 2)), float(rng.uniform(0.05, 2))))
    if case.get("int_spacing"):
        im = _image(dict(case, origin=[0.0, 0.0]), rng, spacing=tuple(int(v) for v in case["int_spacing"]))
    if case.get("crop") and im.sizes["x"] > 3 and im.sizes["y"] > 3:
        im = im.isel(x=slice(1, None), y=slice(0, -1))
    f = fft(im)
    b = ifft(f)
    resid, flags = {}, {}
    flags["dims"] = bool(b.dims == im.dims and b.shape == im.shape)
    if flags["dims"]:
        resid["values"] = relmax(b, im)
        rx = float(np.ptp(im.x.values)) or 1.0
        ry = float(np.ptp(im.y.values)) or 1.0
        cx = float(np.abs(b.x.values - im.x.values).max() / rx)
        cy = float(np.abs(b.y.values - im.y.values).max() / ry)
        resid["coords"] = fnum(max(cx, cy))
        # same comparison after removing the origin: distinguishes "origin lost" from any other coordinate error
        ox = float(np.abs((b.x.values - b.x.values[0]) - (im.x.values - im.x.values[0])).max() / rx)
        oy = float(np.abs((b.y.values - b.y.values[0]) - (im.y.values - im.y.values[0])).max() / ry)
        resid["coords_minus_origin"] = fnum(max(ox, oy))
        flags["origin_nonzero"] = True  # informational; recomputed below
        obs_origin = [float(im.x.values[0]), float(im.y.values[0]), float(b.x.values[0]), float(b.y.values[0])]
    else:
        obs_origin = []
    flags.pop("origin_nonzero", None)
    # unshifted variant is an inverse pair too
    b2 = ifft(fft(im, shift=False), shift=False)
    flags["dims_noshift"] = bool(b2.dims == im.dims and b2.shape == im.shape)
    if flags["dims_noshift"]:
        resid["values_noshift"] = relmax(b2, im)
    flags["name"] = bool(b.name == im.name)
    # the transforms of a plain array (the docstrings' "ndarray or xarray"): the numbers of the labelled image, and inverse to each other;
    # 1-D arrays likewise, with and without the shift
    try:
        arr = np.asarray(im.transpose("x", "y", ...).values)
        fa = fft(arr)
        ba = ifft(fa)
        resid["values_ndarray"] = relmax(ba, arr)
        resid["values_ndarray_vs_labelled"] = relmax(np.asarray(fa), f.transpose("m", "n", ...).values)
    except Exception:
        flags["plain_ndarray_accepted"] = False
    try:
        line = np.asarray(im.transpose("x", "y", ...).values).reshape(im.sizes["x"], -1)[:, 0]
        resid["values_1d"] = fnum(max(relmax(ifft(fft(line)), line), relmax(ifft(fft(line, shift=False), shift=False), line)))
    except Exception:
        flags["one_dimensional_array_accepted"] = False
    from vf.monitors import digest
    flags["attrs"] = bool(digest(dict(b.attrs)) == digest(dict(im.attrs)))
    return {"resid": resid, "flags": flags, "origin": obs_origin, "const": bool(np.ptp(np.abs(im.values)) == 0)}


def _energy(a):
    return float((np.abs(np.asarray(a.values)) ** 2).sum())


def _sl(res, zval):
    """slice(s) of a propagation result whose z label equals zval."""
    idx = np.nonzero(res.z.values == zval)[0]
    return [res.isel(z=int(i)) for i in idx]


def _run_prop(case):
    import holopy as hp
    import xarray as xr
    from holopy.core.metadata import data_grid, update_metadata
    rng = rng_for(*case["seed"])
    nx, ny = case["shape"]
    a = rng.normal(size=(nx, ny)) + 1.0
    if case["complex"]:
        a = a + 1j * rng.normal(size=(nx, ny))
    a = a * _amp(case)
    lam, nmed = case["wavelen"], case["index"]
    oi = case["optics_in"]
    kw_attr = {"attrs": dict(medium_index=nmed, illum_wavelen=lam), "args": {}, "mixed": dict(medium_index=nmed)}[oi]
    kw_arg = {"attrs": {}, "args": dict(medium_index=nmed, illum_wavelen=lam), "mixed": dict(illum_wavelen=lam)}[oi]
    im = data_grid(a, spacing=case["spacing"], illum_polarization=(0, 1), noise_sd=0.1, name="holo3", **kw_attr)
    im.attrs = dict(im.attrs, exposure_time=0.02, camera="cam3", frame=12)
    if case["origin_shift"]:
        im = im.assign_coords(x=im.x.values + 3.25, y=im.y.values - 1.5)
    b = rng.normal(size=(nx, ny)) * _amp(case)
    im2 = data_grid(b + (1j * _amp(case) * rng.normal(size=(nx, ny)) if case["complex"] else 0), spacing=case["spacing"], illum_polarization=(0, 1), noise_sd=0.1, name="holo3", **kw_attr)
    if case["origin_shift"]:
        im2 = im2.assign_coords(x=im.x.values, y=im.y.values)
    d1, d2, d3 = case["d"]
    lm = lam / nmed
    P = lambda x, d, **k: hp.propagate(x, d, **dict(kw_arg, **k))
    resid, flags = {}, {}
    e0 = _energy(im)
    r1 = P(im, d1)
    flags["result_dims"] = bool(set(r1.dims) == {"x", "y", "z"} and r1.sizes["z"] == 1 and float(r1.z.values[0]) == d1)
    # zero
    z0 = P(im, 0)
    flags["zero_scalar_identity"] = bool(_same_image(z0, im, kw_arg))
    z0f = P(im, 0.0)
    flags["zero_float_identity"] = bool(_same_image(z0f, im, kw_arg))
    # additivity
    if all(isinstance(v, int) for v in case["spacing"]) and not case["origin_shift"]:
        # the same image with its integer pixel coordinates written as floats is the same image
        flags["integer_coordinates"] = bool(im.x.dtype.kind in "iu" and im.y.dtype.kind in "iu")
        imf = im.assign_coords(x=im.x.values.astype(float), y=im.y.values.astype(float))
        imf.attrs = dict(im.attrs)
        rf = P(imf, d1)
        resid["integer_vs_float_coordinates"] = relmax(r1.values.reshape(-1), rf.transpose(*r1.dims).values.reshape(-1))
        flags["integer_vs_float_coordinates_axes"] = bool(np.array_equal(r1.x.values, rf.x.values) and np.array_equal(r1.y.values, rf.y.values))
    r12 = P(r1, d2)
    rsum = P(im, d1 + d2)
    resid["additive"] = relmax(r12.values.reshape(-1), rsum.transpose(*r12.dims).values.reshape(-1))
    # inverse distance
    back = P(r1, -d1)
    resid["inverse"] = relmax(back.transpose("z", "x", "y").values[0], im.values[0])
    # linearity
    al, be = complex(rng.normal(), rng.normal()), float(rng.normal())
    comb = (al * im + be * im2)
    comb.attrs = im.attrs
    comb.name = im.name
    lhs = P(comb, d1)
    rhs = al * r1.values + be * P(im2, d1).transpose(*r1.dims).values
    resid["linear"] = relmax(lhs.transpose(*r1.dims).values, rhs)
    # energy
    resid["energy_growth"] = fnum(max(0.0, _energy(r1) / e0 - 1))
    resid["energy_growth@sum"] = fnum(max(0.0, _energy(rsum) / e0 - 1))
    # list of distances (stack), with zero and a repeat
    lst = [d1, d2, d3]
    st = P(im, lst)
    ok = st.sizes.get("z") == 3
    worst = 0.0
    for d in lst:
        single = P(im, d)
        sl = _sl(st, d)
        ok &= len(sl) >= 1
        for s in sl:
            worst = max(worst, relmax(s.transpose("x", "y").values, single.isel(z=0).transpose("x", "y").values))
    flags["stack_shape"] = bool(ok)
    resid["stack"] = fnum(worst)
    lst0 = [d2, 0.0, d1, d1]
    st0 = P(im, lst0)
    ok = st0.sizes.get("z") == 4
    worst = 0.0
    for d in (d1, d2):
        for s in _sl(st0, d):
            worst = max(worst, relmax(s.transpose("x", "y").values, P(im, d).isel(z=0).transpose("x", "y").values))
        ok &= len(_sl(st0, d)) == lst0.count(d)
    zs = _sl(st0, 0.0)
    ok &= len(zs) == 1
    if zs:
        worst = max(worst, relmax(zs[0].transpose("x", "y").values, im.isel(z=0).transpose("x", "y").values))
    flags["stack0_shape"] = bool(ok)
    resid["stack@with_zero"] = fnum(worst)
    # slice i of the stack is the propagation by the i-th distance, wherever zeros stand in the list and however many there are
    worst, ok = 0.0, True
    for lst_ in ([d1, 0.0, d2], [0.0, 0.0, d1], [d3, 0, d1, 0.0, d2], [0.0, d1], [0.0, 0.0]):
        try:
            st_ = P(im, lst_)
        except Exception as e:
            ok = False
            continue
        if st_.sizes.get("z") != len(lst_) or not np.array_equal(np.asarray(st_.z.values, dtype=float), np.asarray(lst_, dtype=float)):
            ok = False
            continue
        for i_, d_ in enumerate(lst_):
            single = (im if d_ == 0 else P(im, d_)).isel(z=0).transpose("x", "y").values
            worst = max(worst, relmax(st_.isel(z=i_).transpose("x", "y").values, single))
    flags["stack_order_follows_list"] = bool(ok)
    resid["stack@order"] = fnum(worst)
    # a zero distance is a zero distance in every spelling, and optics handed to the call are taken on also then
    try:
        flags["zero_0d_array_identity"] = bool(_same_image(P(im, np.array(0.)), im, kw_arg) and _same_image(P(im, np.float64(0)), im, kw_arg))
    except Exception:
        flags["zero_0d_array_identity"] = False
    zo = hp.propagate(im, 0, medium_index=1.07, illum_wavelen=0.4321)
    flags["zero_distance_takes_given_optics"] = bool(float(zo.medium_index) == 1.07 and float(zo.illum_wavelen) == 0.4321 and np.array_equal(zo.values, im.values)
                                                     and float(im.medium_index if im.medium_index is not None else -1) != 1.07)
    # an image whose length-one z axis has been indexed away is the same image
    try:
        flat2d = P(im.isel(z=0), d1)
        resid["stack@no_z_axis"] = relmax(flat2d.transpose(*r1.dims).values, r1.values)
    except Exception:
        flags["image_without_z_axis_propagates"] = False
    # ... also when it has no z coordinate at all (dropped), for a list of distances with a zero in it, and with one more coordinate
    # running along x (row numbers) that is not an axis
    try:
        bare = im.isel(z=0, drop=True)
        stb = P(bare, [d1, 0.0, d2])
        w_ = 0.0
        for k_, dd in enumerate([d1, 0.0, d2]):
            want_ = P(im, dd).isel(z=0) if dd != 0 else im.isel(z=0)
            w_ = max(w_, relmax(stb.isel(z=k_).transpose("x", "y").values, want_.transpose("x", "y").values))
        resid["stack@no_z_coordinate_with_zero"] = fnum(w_)
        flags["stack_labels@no_z_coordinate_with_zero"] = bool(list(stb.z.values) == [d1, 0.0, d2])
    except Exception:
        flags["image_without_z_coordinate_propagates_to_a_list_with_zero"] = False
    try:
        rows = im.assign_coords(row=("x", np.arange(im.sizes["x"])))
        rows.attrs = dict(im.attrs)
        rr = P(rows, d1)
        resid["stack@extra_coordinate_along_x"] = relmax(rr.transpose(*r1.dims).values, r1.values)
    except Exception:
        flags["image_with_extra_coordinate_along_x_propagates"] = False
    # cfsp
    rc = P(im, d1, cfsp=case["cfsp"])
    resid["cfsp"] = relmax(rc.transpose(*r1.dims).values, r1.values)
    # gradient filter
    gf = case["gf"]
    rg = P(im, d1, gradient_filter=gf)
    resid["gradient"] = relmax(rg.transpose(*r1.dims).values, r1.values - P(im, d1 + gf).transpose(*r1.dims).values)
    resid["energy_growth_gf4"] = fnum(max(0.0, _energy(rg) / (4 * e0) - 1))
    # same image, distances and vacuum wavelength, *different medium*: only lambda/n matters, so
    # (lambda, n2) must equal (lambda/n2, 1) -- and must not be served from anything remembered from the calls above
    n2 = nmed * float(rng.uniform(1.1, 1.6))
    ra = hp.propagate(im, d1, medium_index=n2, illum_wavelen=lam)
    rb = hp.propagate(im, d1, medium_index=1.0, illum_wavelen=lam / n2)
    resid["medium_rescaling"] = relmax(ra.transpose(*r1.dims).values, rb.transpose(*r1.dims).values)
    rc2 = hp.propagate(hp.propagate(im, d1, medium_index=n2, illum_wavelen=lam), d2, medium_index=n2, illum_wavelen=lam)
    rd2 = hp.propagate(im, d1 + d2, medium_index=1.0, illum_wavelen=lam / n2)
    resid["additive@second_medium"] = relmax(rc2.values.reshape(-1), rd2.transpose(*rc2.dims).values.reshape(-1))
    phase = 2 * math.pi * max(abs(d1), abs(d2), abs(d3), abs(d1 + d2)) / lm * 1.6
    return {"resid": resid, "flags": flags, "phase": phase, "const": False,
            "evanescent": bool(min(case["spacing"]) < lm / 2)}


# ------------------------------------------------------------------ oracle

def judge(case, obs):
    out = []
    r, f = obs["resid"], obs["flags"]
    desc = {k: case[k] for k in case if k not in ("seed", "id")}
    for k, v in f.items():
        if not v:
            out.append({"mech": "%s.%s" % (case["kind"], k), "detail": "flag %s false; %s" % (k, desc)})
    if case["kind"] == "fftinv":
        if not r.get("values", 0) <= 1e-12:
            odd = "odd" if (case["shape"][0] % 2 or case["shape"][1] % 2) else "even"
            out.append({"mech": "fftinv.values.%s" % odd, "detail": "ifft(fft(x)) != x: rel %.3e; %s" % (r["values"], desc)})
        if not r.get("values_noshift", 0) <= 1e-12:
            out.append({"mech": "fftinv.values_noshift", "detail": "rel %.3e; %s" % (r["values_noshift"], desc)})
        for k_ in ("values_ndarray", "values_ndarray_vs_labelled", "values_1d"):
            if not r.get(k_, 0) <= 1e-12:
                out.append({"mech": "fftinv.%s" % k_, "detail": "rel %.3e; %s" % (r[k_], desc)})
        if not r.get("coords", 0) <= 1e-12:
            org = obs.get("origin") or [0, 0, 0, 0]
            lost = (org[0] != 0 or org[1] != 0) and org[2] == 0 and org[3] == 0 and r.get("coords_minus_origin", 1) <= 1e-12
            out.append({"mech": "fftinv.coords_origin_lost" if lost else "fftinv.coords",
                        "detail": "coords differ by %.3e of the axis range; origins (x0,y0 in; x0,y0 out)=%s; %s" % (r["coords"], org, desc)})
        return out
    ph = max(1.0, obs.get("phase", 1.0))
    tol = 1e-12 + 2e-15 * ph
    for k in ("additive", "inverse", "linear", "stack", "cfsp", "gradient", "medium_rescaling", "integer_vs_float_coordinates"):
        for kk, v in r.items():
            if kk.split("@")[0] == k and not v <= tol * (20 if k == "gradient" else 1):
                out.append({"mech": "prop.%s" % k, "detail": "%s=%.3e > %.2e (phase %.2e); %s" % (kk, v, tol, ph, desc)})
    for kk, v in r.items():
        if kk.startswith("energy_growth") and not v <= 1e-12:
            out.append({"mech": "prop.energy", "detail": "%s=%.3e; %s" % (kk, v, desc)})
    return out


def nontrivial(case, obs):
    return not obs.get("const") and len(obs.get("resid", {})) > 0


def evidence_extra(cases, obs):
    ex = [c for c in cases if c.get("exhaustive")]
    done = [c for c in ex if "obs" in obs.get(c["id"], {})]
    return {"exhaustive": False,
            "exhaustive_subspace": {"what": "ifft(fft(x)) for every shape 2..8 x 2..8, layouts (x,y) and (z,x,y), real and complex",
                                    "enumerated": len(ex), "executed": len(done), "complete": len(ex) == len(done) == 196}}
