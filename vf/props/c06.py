"""C06 Superposition, polarization linearity, multi-channel = stacked single-channel."""
import math

import numpy as np

from ..util import rng_for, fnum, loguniform, relmax
from .. import scat

LEVEL_TEXT = ("Runtime monitoring with relational oracles on recorded executions of the real code: (i) the field of a "
              "collection of 1-6 spheres (uniform and layered, flat and nested) under Mie / MieLens / AberratedMieLens is "
              "compared with the sum of separately computed member fields; (ii) the field for polarization (a,b) of any norm "
              "and sign is compared with (a*field_x + b*field_y)/|(a,b)| for every theory that accepts arbitrary "
              "polarization; (iii) 2-3 channel calculations with per-channel wavelength, polarization, scaling, noise and "
              "per-channel scatterer parameters (dicts and labelled arrays in permuted order, several label alphabets) are "
              "compared channel by channel, selected by label, with the corresponding single-channel calls. Contract "
              "monitors run on every call.")
LEVEL_NOTE = "Trusted: numpy/xarray label selection used by the oracle (sel by label)."
TECHNIQUE = "runtime monitoring: relational oracles (superposition, linearity, per-channel equality by label) over recorded executions + contract monitors"
RULE = ("super: collections of 1-6 non-overlapping spheres, every 3rd with a layered member (Mie only), every 4th nested; "
        "linpol: 8 (scatterer,theory) kinds, (a,b) normal with random scale incl. negative components; multi: 2-3 channels, "
        "label alphabets {colour names, letters, integers}, metadata as dict / DataArray(permuted) / mixed, detector as grid "
        "with extra_dims or as a multi-channel image, wavelengths also as a plain list in the detector's channel order, complex per-channel indices; tmpol: Tmatrix with tilted particles and polarizations other than x (refused, or linear). non-trivial = field not identically zero; distinct by rounded case JSON")
ASSUMPTIONS = ["T-matrix is excluded from polarization linearity (it accepts only (1,0))"]
MIN_NONTRIVIAL = 20
REQUIRED_COUNTERS = ["calc_holo", "calc_field"]
CASE_TIMEOUT = 900

LIN_KINDS = ["mie_sphere", "mie_layered", "mie_spheres", "multisphere", "mielens", "aberrated", "lens_mie", "mielens_spheres"]
LABELSETS = [["red", "green", "blue"], ["a", "b", "c"], [405, 532, 658], ["green", "blue", "red"]]


def cases(tier, seed):
    out = []
    rng = rng_for(seed, "c06")
    n = 90 if tier == "quick" else 2400
    for i in range(n):
        o = scat.gen_optics(rng)
        thk = i % 3
        lens = thk > 0
        zc = float(rng.uniform(-2, 10)) if lens else None
        cl = scat.gen_cluster(rng, o, 1 + i % 6, xmax=8.0, zc=zc, absorbing=not lens)
        if lens:
            for m in cl["members"]:
                m["c"][2] = zc          # lens theories need one z per particle only; keep any z
                if isinstance(m["n"], list):
                    m["n"] = m["n"][0]
        if thk == 0 and i % 3 == 0 and cl["members"]:
            m = cl["members"][0]
            m["t"] = "layered"; m["n"] = [m["n"], scat.gen_index(rng, o, absorbing=False)]; m["r"] = [m["r"] * 0.6, m["r"]]
        nested = (i % 4 == 3) and len(cl["members"]) >= 3
        th = [{"t": "Mie", "kw": scat.MIE_OPTS[i % 4]}, {"t": "MieLens", "lens_angle": float(rng.uniform(0.2, 1.2)), "kw": scat.ML_OPTS[i % 4]},
              {"t": "AberratedMieLens", "lens_angle": float(rng.uniform(0.2, 1.2)), "sa": float(rng.normal()), "kw": {}}][thk]
        out.append({"id": "super-%d" % i, "kind": "super", "optics": o, "cluster": cl, "theory": th, "nested": nested,
                    "det": scat.gen_grid(rng, maxn=7) if i % 2 else scat.gen_points(rng, n=int(rng.integers(1, 16)))})
    for i in range(n):
        kind = LIN_KINDS[i % len(LIN_KINDS)]
        cfg = scat.gen_config(rng, kind)
        sc = float(loguniform(rng, 0.1, 10))
        ab = [float(rng.normal() * sc), float(rng.normal() * sc)]
        if i % 11 == 0:
            ab = [[1, 1], [-1, 1], [0, -2], [-3, 0], [1e-3, 1]][i % 5]
        out.append({"id": "lin-%d" % i, "kind": "linpol", "ckind": kind, "cfg": cfg, "ab": ab, "cost": 6 if kind in ("lens_mie", "multisphere") else 1})
    # the T-matrix theory documents that it takes x polarization only: any other direction is either refused, or -- should it ever be
    # accepted -- obeys the same linearity (tilted particles: the frame trick that works for spheres does not work for them)
    for i in range(8 if tier == "quick" else 200):
        kind = ["tmatrix_spheroid", "tmatrix_cylinder"][i % 2]
        cfg = scat.gen_config(rng, kind)
        cfg["scat"]["rot"] = [0.0, float(rng.uniform(0.3, 2.8)), float(rng.uniform(0, 6.28))]
        ab = [[-1.0, 0.0], [0.0, 1.0], [float(rng.normal()), float(rng.normal())], [0.0, -2.0]][i % 4]
        out.append({"id": "tmpol-%d" % i, "kind": "tmpol", "ckind": kind, "cfg": cfg, "ab": ab, "cost": 6})
    nm = 60 if tier == "quick" else 1500
    for i in range(nm):
        nch = 2 + i % 2
        labs = LABELSETS[(i // 2) % 4][:nch]
        nmed = float(rng.uniform(1.0, 1.5))
        wl = {str(l): float(rng.uniform(0.4, 0.8)) for l in labs}
        pol = {str(l): [float(rng.normal()), float(rng.normal())] for l in labs}
        scaling = {str(l): float(rng.uniform(0.3, 1.2)) for l in labs}
        noise = {str(l): float(rng.uniform(0.01, 0.2)) for l in labs}
        nidx = {str(l): nmed * float(rng.uniform(1.05, 1.6)) for l in labs}
        if i % 5 in (1, 3):
            # an absorbing particle whose absorption differs from channel to channel: complex per-channel indices ([re, im] through JSON)
            nidx = {l: [v, float(loguniform(rng, 1e-3, 0.3))] for l, v in nidx.items()}
        rad = {str(l): float(rng.uniform(0.2, 0.8)) for l in labs}
        lens = i % 3 == 2
        out.append({"id": "multi-%d" % i, "kind": "multi", "labels": labs, "nmed": nmed, "wl": wl, "pol": pol, "scaling": scaling, "noise": noise,
                    "n": nidx, "r": rad, "center": [float(rng.uniform(0, 1.5)), float(rng.uniform(0, 1.5)), float(rng.uniform(-2, 10) if lens else rng.uniform(5, 20))],
                    "theory": {"t": "MieLens", "lens_angle": float(rng.uniform(0.3, 1.1)), "kw": {}} if lens else {"t": "Mie", "kw": {}},
                    "shape": [int(rng.integers(1, 7)), int(rng.integers(2, 7))], "spacing": [float(rng.uniform(0.1, 0.4)), float(rng.uniform(0.1, 0.4))],
                    "form": {"wl": (["dict", "array", "array_perm", "scalar"][i % 4] if i % 5 else "scalar") if i % 11 != 7 else "list", "pol": ["dict", "array_perm"][(i // 3) % 2], "n": ["dict", "array_perm", "scalar"][(i // 2) % 3],
                             "r": ["scalar", "dict"][(i // 5) % 2], "scaling": ["dict", "scalar"][(i // 7) % 2], "detector": ["grid", "image"][(i // 4) % 2]},
                    "seed": [seed, "multi", i],
                    # what scatters: one sphere; a close pair one of whose spheres has the per-channel values (default theory: F124, explicit
                    # multi-sphere solver: F125); a sphere given by layer thicknesses with per-channel dictionaries (F126)
                    "scat_kind": "sphere" if lens else ["sphere", "pair_auto", "sphere", "pair_multisphere", "layered_dict", "sphere"][i % 6]})
    return out


# ------------------------------------------------------------------ child

def _calc_field(det, s, th, o):
    from holopy.scattering import calc_field
    return calc_field(det, s, medium_index=o["medium_index"], illum_wavelen=o["illum_wavelen"], illum_polarization=o["illum_polarization"], theory=th)


@scat.guarded
def run_case(case):
    return globals()["_run_" + case["kind"]](case)


def _run_super(case):
    from holopy.scattering.scatterer import Spheres, Scatterers
    o = case["optics"]
    members = [scat.build_scatterer(m) for m in case["cluster"]["members"]]
    th = scat.build_theory(case["theory"])
    det = scat.build_detector(case["det"])
    if case["nested"]:
        coll = Scatterers([Spheres(members[:2], warn=False), Scatterers(members[2:])])
    else:
        coll = Spheres(members, warn=False)
    tot = _calc_field(det, coll, th, o)
    parts = None
    for m in members:
        f = _calc_field(det, m, th, o)
        parts = f.values.copy() if parts is None else parts + f.values
    resid = {"superposition@" + case["theory"]["t"]: relmax(tot.values, parts)}
    # holograms too: |sum + ref|^2
    from holopy.scattering import calc_holo
    h = calc_holo(det, coll, o["medium_index"], o["illum_wavelen"], o["illum_polarization"], theory=th, scaling=0.7)
    fx, fy = tot.sel(vector="x"), tot.sel(vector="y")
    p = np.append(np.asarray(o["illum_polarization"], dtype=float), 0.0); p = p / np.sqrt((p ** 2).sum())
    ref = np.abs(0.7 * fx.values + p[0]) ** 2 + np.abs(0.7 * fy.values + p[1]) ** 2
    resid["super_holo@" + case["theory"]["t"]] = relmax(h.transpose(*fx.dims).values, ref)
    return {"resid": resid, "flags": {}, "fmax": fnum(float(np.abs(tot.values).max())), "nmem": len(members)}


def _run_linpol(case):
    cfg = case["cfg"]
    o = cfg["optics"]
    s = scat.build_scatterer(cfg["scat"])
    th = scat.build_theory(cfg["theory"])
    det = scat.build_detector(cfg["det"])
    a, b = case["ab"]
    fx = _calc_field(det, s, th, dict(o, illum_polarization=[1, 0])).values
    fy = _calc_field(det, s, th, dict(o, illum_polarization=[0, 1])).values
    fab = _calc_field(det, s, th, dict(o, illum_polarization=[a, b])).values
    exp = (a * fx + b * fy) / math.hypot(a, b)
    t = cfg["theory"]["t"]
    resid = {"pol_linear@" + t: relmax(fab, exp)}
    # norm of the polarization does not matter
    f2 = _calc_field(det, s, th, dict(o, illum_polarization=[3.7 * a, 3.7 * b])).values
    resid["pol_norm_invariant@" + t] = relmax(f2, fab)
    # the same polarization written in the other accepted forms: 3 components (z = 0), tuple / list / ndarray, any norm
    k = [0.01, 1.0, 2.5, 40.0][int(abs(a * 1000)) % 4]
    import xarray as xr
    forms = [(k * a, k * b, 0), [k * a, k * b, 0.0], np.array([k * a, k * b, 0.0]), np.array([k * a, k * b]), (a, b, 0.0),
             xr.DataArray([k * a, k * b, 0.0], coords={"vector": ["x", "y", "z"]}, dims="vector")]      # already labelled, any norm
    # ... any norm at all: amplitudes whose squares leave the range of a double, whole numbers whose squares leave 64 bits (F127), and a
    # labelled vector whose labels come in another order (the labels say which component is which: F128)
    ia, ib = int(round(a * 4e9)), int(round(b * 4e9))
    forms += [(1e170 * a, 1e170 * b), (1e-170 * a, 1e-170 * b), [1e170 * a, 1e170 * b, 0.0],
              xr.DataArray([k * b, k * a, 0.0], coords={"vector": ["y", "x", "z"]}, dims="vector"),
              xr.DataArray([0.0, k * a, k * b], coords={"vector": ["z", "x", "y"]}, dims="vector"),
              xr.DataArray([k * b, k * a], coords={"vector": ["y", "x"]}, dims="vector")]          # (two labelled components: F141)
    worst = 0.0
    for pf in forms:
        worst = max(worst, relmax(_calc_field(det, s, th, dict(o, illum_polarization=pf)).values, fab))
    resid["pol_forms@" + t] = worst
    if ia or ib:
        fint = _calc_field(det, s, th, dict(o, illum_polarization=(ia, ib))).values
        fflt = _calc_field(det, s, th, dict(o, illum_polarization=(float(ia), float(ib)))).values
        resid["pol_forms@" + t] = max(worst, relmax(fint, fflt))
    # the hologram adds the reference wave by component label: the same forms there
    from holopy.scattering import calc_holo
    kw = dict(medium_index=o["medium_index"], illum_wavelen=o["illum_wavelen"], theory=th)
    h0 = calc_holo(det, s, illum_polarization=(a, b), **kw).values
    hw = max(relmax(calc_holo(det, s, illum_polarization=pf, **kw).values, h0) for pf in (forms[-1], forms[-2], forms[-3], forms[-6]))
    resid["pol_forms@" + t] = max(resid["pol_forms@" + t], hw)
    return {"resid": resid, "flags": {}, "fmax": fnum(float(np.abs(fab).max())), "qeps1": cfg["theory"].get("kw", {}).get("qeps1", 1e-5)}


def _run_tmpol(case):
    cfg = case["cfg"]
    o = cfg["optics"]
    s = scat.build_scatterer(cfg["scat"])
    th = scat.build_theory(cfg["theory"])
    det = scat.build_detector(cfg["det"])
    a, b = case["ab"]
    fx = _calc_field(det, s, th, dict(o, illum_polarization=[1, 0])).values
    got = {}
    for nm, pol in (("ab", [a, b]), ("y", [0, 1]), ("minus_x", [-1, 0])):
        try:
            got[nm] = _calc_field(det, s, th, dict(o, illum_polarization=pol)).values
        except ValueError:
            got[nm] = None
    refused = [k for k, v in got.items() if v is None]
    flags = {"refusal_is_consistent": bool(len(refused) in (0, 3))}
    resid = {}
    if not refused:
        resid["pol_linear@Tmatrix"] = relmax(got["ab"], (a * fx + b * got["y"]) / math.hypot(a, b))
        resid["pol_linear@Tmatrix"] = max(resid["pol_linear@Tmatrix"], relmax(got["minus_x"], -fx))
    return {"resid": resid, "flags": flags, "fmax": fnum(float(np.abs(fx).max())), "refused": refused}


def _lab(l, labels):
    """labels travel through JSON as strings for dict keys; map back to the original label"""
    for x in labels:
        if str(x) == str(l):
            return x
    return l


def _run_multi(case):
    import xarray as xr
    import holopy as hp
    from holopy.scattering import calc_holo, calc_field, calc_intensity, Sphere
    from holopy.core.metadata import detector_grid, update_metadata, to_vector
    rng = rng_for(*case["seed"])
    labs = case["labels"]
    nch = len(labs)
    form = case["form"]
    key = lambda d: {_lab(k, labs): v for k, v in d.items()}
    wl, pol, scaling, noise, nidx, rad = [key(case[k]) for k in ("wl", "pol", "scaling", "noise", "n", "r")]
    nidx = {l: (complex(v[0], v[1]) if isinstance(v, list) else v) for l, v in nidx.items()}
    perm = [labs[i] for i in rng.permutation(nch)]

    def as_array(d, order):
        return xr.DataArray([d[l] for l in order], dims="illumination", coords={"illumination": order})
    def shuffled(d):
        """same mapping, keys inserted in a random order (a dict's meaning must not depend on its insertion order)"""
        ks = [labs[i] for i in rng.permutation(nch)]
        return {k: d[k] for k in ks}
    wl, scaling, noise, nidx, rad = shuffled(wl), shuffled(scaling), shuffled(noise), shuffled(nidx), shuffled(rad)
    if form["wl"] == "scalar":
        # channels that differ in polarization / particle properties only: one wavelength, given as a plain number
        wl = {l: wl[labs[0]] for l in labs}
        wl_arg = wl[labs[0]]
    elif form["wl"] == "list":
        # a plain list, one wavelength per channel of the (labelled) detector, in the detector's channel order
        wl_arg = [wl[l] for l in labs]
    else:
        wl_arg = wl if form["wl"] == "dict" else as_array(wl, labs if form["wl"] == "array" else perm)
    if form["pol"] == "dict":
        # two- and three-component vectors of arbitrary norm mean the same direction
        pol_arg = {l: (tuple(v) if i % 2 else (2.5 * v[0], 2.5 * v[1], 0.0)) for i, (l, v) in enumerate(shuffled(pol).items())}
    else:
        # labelled array; every other case with rows of arbitrary (non-unit) length, which mean the same directions
        rows = [to_vector(pol[l]) * ([1.0, 2.5, 0.04][i % 3] if sum(case["seed"][-1:]) % 2 else 1.0) for i, l in enumerate(perm)]
        pol_arg = xr.concat(rows, xr.DataArray(perm, dims="illumination", name="illumination"))
    # (with a plain list of wavelengths the channel order is the detector's, in whatever order the polarizations are labelled: F184, F189)
    n_arg = nidx if form["n"] == "dict" else (as_array(nidx, perm) if form["n"] == "array_perm" else nidx[labs[0]])
    r_arg = rad if form["r"] == "dict" else rad[labs[0]]
    sc_arg = scaling if form["scaling"] == "dict" else scaling[labs[0]]
    det = detector_grid(tuple(case["shape"]), tuple(case["spacing"]), extra_dims={"illumination": labs})
    if form["detector"] == "image":
        det = det.copy(data=rng.normal(size=det.shape))
        det = update_metadata(det, noise_sd=noise)
    s = Sphere(n=n_arg, r=r_arg, center=tuple(case["center"]))
    th = scat.build_theory(case["theory"])
    sk = case.get("scat_kind", "sphere")
    cen = tuple(case["center"])
    mate = Sphere(n=case["nmed"] * 1.2, r=0.3, center=(cen[0] + 0.3 + max(rad.values()) + 0.15, cen[1], cen[2]))     # a close neighbour (gap 0.15)
    def single(l):
        return Sphere(n=nidx[l] if form["n"] != "scalar" else nidx[labs[0]], r=rad[l] if form["r"] == "dict" else rad[labs[0]], center=cen)
    if sk in ("pair_auto", "pair_multisphere"):
        from holopy.scattering import Spheres
        from holopy.scattering.theory import Multisphere
        if sk == "pair_multisphere" and form["n"] == "dict":
            n_arg = as_array(nidx, perm)          # the labelled-array form of the same per-channel indices
        s = Spheres([Sphere(n=n_arg, r=r_arg, center=cen), mate], warn=False)
        th = "auto" if sk == "pair_auto" else Multisphere()
        single_ = single
        single = lambda l: Spheres([single_(l), mate], warn=False)
    elif sk == "layered_dict":
        from holopy.scattering.scatterer import LayeredSphere
        inner = {l: 0.6 * (rad[l] if form["r"] == "dict" else rad[labs[0]]) for l in labs}
        shell = {l: 0.4 * (rad[l] if form["r"] == "dict" else rad[labs[0]]) for l in labs}
        n_in = {l: (nidx[l] if form["n"] != "scalar" else nidx[labs[0]]) for l in labs}
        s = LayeredSphere(n={l: [n_in[l], case["nmed"] * 1.1] for l in labs}, t={l: [inner[l], shell[l]] for l in labs} if form["r"] == "dict" else [inner[labs[0]], shell[labs[0]]], center=cen)
        single = lambda l: LayeredSphere(n=[n_in[l], case["nmed"] * 1.1], t=[inner[l], shell[l]], center=cen)
    h = calc_holo(det, s, case["nmed"], wl_arg, pol_arg, theory=th, scaling=sc_arg)
    f = calc_field(det, s, case["nmed"], wl_arg, pol_arg, theory=th)
    I = calc_intensity(det, s, case["nmed"], wl_arg, pol_arg, theory=th)
    det1 = detector_grid(tuple(case["shape"]), tuple(case["spacing"]))
    resid, flags = {}, {}
    flags["illumination_dim"] = bool("illumination" in h.dims and sorted(map(str, h.illumination.values)) == sorted(map(str, labs)))
    worst_h = worst_f = worst_i = 0.0
    for l in labs:
        s1 = single(l)
        sc1 = scaling[l] if form["scaling"] == "dict" else scaling[labs[0]]
        h1 = calc_holo(det1, s1, case["nmed"], wl[l], tuple(pol[l]), theory=th, scaling=sc1)
        f1 = calc_field(det1, s1, case["nmed"], wl[l], tuple(pol[l]), theory=th)
        i1 = calc_intensity(det1, s1, case["nmed"], wl[l], tuple(pol[l]), theory=th)
        worst_h = max(worst_h, relmax(h.sel(illumination=l).transpose(*h1.dims).values, h1.values))
        worst_f = max(worst_f, relmax(f.sel(illumination=l).transpose(*f1.dims).values, f1.values))
        worst_i = max(worst_i, relmax(I.sel(illumination=l).transpose(*i1.dims).values, i1.values))
    t = case["theory"]["t"] if sk in ("sphere", "layered_dict") else {"pair_auto": "auto", "pair_multisphere": "MultisphereSameCall"}[sk]
    resid["channel_holo@" + t] = fnum(worst_h)
    resid["channel_field@" + t] = fnum(worst_f)
    resid["channel_intensity@" + t] = fnum(worst_i)
    if form["detector"] == "image":
        ns = h.attrs.get("noise_sd")
        ok = ns is not None
        if ok:
            for l in labs:
                ok &= bool(float(ns.sel(illumination=l)) == noise[l])
        flags["noise_by_label_kept"] = bool(ok)
    return {"resid": resid, "flags": flags, "fmax": fnum(float(np.abs(f.values).max()))}


# ------------------------------------------------------------------ oracle

def judge(case, obs):
    out = []
    for k, v in obs["resid"].items():
        base, t = k.split("@")
        tol = {"superposition": 1e-12, "super_holo": 1e-12, "pol_linear": 1e-10, "pol_norm_invariant": 1e-12, "pol_forms": 1e-12,
               "channel_holo": 1e-12, "channel_field": 1e-12, "channel_intensity": 1e-12}[base]
        if t == "Multisphere":
            tol = max(tol, 3 * math.sqrt(obs.get("qeps1", 1e-5)))
        if t in ("auto", "MultisphereSameCall"):
            tol = 1e-9        # the same iterative solver on the same numbers, once inside a multi-channel call and once on its own
        if t == "Lens":
            tol = max(tol, 1e-9)
        if t == "Tmatrix":
            tol = 1e-5        # (the Fortran code nudges angles by 1e-7)
        if not v <= tol:
            desc = {x: case[x] for x in case if x in ("ab", "ckind", "form", "labels", "nested", "theory")}
            out.append({"mech": "%s.%s" % (base, t), "detail": "%s=%.3e > %.0e; %s" % (k, v, tol, desc)})
    for k, v in obs["flags"].items():
        if not v:
            out.append({"mech": "%s.%s" % (case["kind"], k), "detail": "%s" % {x: case[x] for x in case if x in ("form", "labels")}})
    return out


def judge_exception(case, o):
    ex = o["exception"]
    mech = "exception.%s.%s" % (case["kind"], ex["type"])
    return [{"mech": mech, "detail": ex["tb"][-900:] + " ;; " + str({x: case[x] for x in case if x in ("form", "labels", "ab", "ckind")})}]


def nontrivial(case, obs):
    return obs.get("fmax", 0) > 0
