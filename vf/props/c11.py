"""C11 Model parameters map to exactly the places their priors were used."""
import itertools
import math

import numpy as np

from ..util import rng_for, fnum, loguniform

NEEDS_FORTRAN = True      # Mie() must be constructible
INSTALL_MONITORS = False
LEVEL_TEXT = ("Runtime monitoring with a shadow model: the generator builds scatterer / theory / scaling / optics "
              "descriptions with prior objects at random subsets of sites (shared objects, named / unnamed / colliding names, "
              "priors in lists, complex priors with fixed or free parts, arithmetic and ufunc transformations) and remembers "
              "which object sits where; the real AlphaModel / ExactModel is then driven with value vectors of pairwise distinct "
              "tags and the oracle checks that every site of the rebuilt scatterer/theory holds exactly the transformation of "
              "its own prior's tag, fixed values are untouched, names are unique, one parameter per distinct prior, dict- and "
              "list-form values agree, guesses are used for the initial scatterer, and add_tie (all subsets of up to 5 equal "
              "candidates, sequences of two ties, with and without new names) removes exactly the duplicates while every site "
              "keeps following its prior. from_parameters(parameters) round trips are checked with a purity digest.")
LEVEL_NOTE = "Trusted: the shadow evaluation of the generated site expressions (plain Python arithmetic)."
TECHNIQUE = "runtime monitoring: reference-model (shadow mapping) oracle over generated model structures; bounded-exhaustive tie subsets"
RULE = ("struct: 9 scatterer shapes (sphere, layered 2-3, Spheres 1-4, spheroid, cylinder, rigid cluster) x random site "
        "assignment from a pool of 1-6 priors (p_share 0.4) x expression kinds {prior, a*P+b, P+Q, sqrt(P), complex}; theory "
        "MieLens/AberratedMieLens with prior parameters in a third of the cases; ties: every subset of size>=2 of 2-5 equal "
        "priors; roundtrip: random physical scatterers; nested: a rigid cluster as member of a collection (either place, one level deeper), labelled-array values. non-trivial = model has >=1 parameter; distinct by rounded case JSON")
ASSUMPTIONS = ["site values are read from the rebuilt scatterer's public attributes (n, r, center, rotation, h, d, scatterers[i])"]
MIN_NONTRIVIAL = 20


# ------------------------------------------------------------------ generation (parent)

def _site(rng, npool, allow_complex=False, p_prior=0.55):
    if rng.random() > p_prior:
        return {"k": "fix", "v": float(rng.uniform(0.5, 3.0))}
    r = rng.random()
    i = int(rng.integers(0, npool))
    if allow_complex and r < 0.25:
        re = {"k": "p", "i": i} if rng.random() < 0.7 else {"k": "fix", "v": float(rng.uniform(1.3, 1.7))}
        im = {"k": "p", "i": int(rng.integers(0, npool))} if rng.random() < 0.5 else {"k": "fix", "v": float(rng.uniform(0.001, 0.1))}
        return {"k": "cplx", "re": re, "im": im}
    if r < 0.6:
        return {"k": "p", "i": i}
    if r < 0.75:
        return {"k": "lin", "i": i, "a": float(rng.choice([2.0, 0.5, 3.25])), "b": float(rng.choice([0.0, 1.0, 0.25]))}
    if r < 0.84:
        return {"k": "sum", "i": i, "j": int(rng.integers(0, npool))}
    if r < 0.93:
        # a constant taken out of an array (a NumPy scalar) ON THE LEFT of a non-commutative operator: c - P, c / P
        return {"k": ["rsub", "rdiv"][int(rng.integers(0, 2))], "i": i, "c": float(rng.choice([50.0, 75.5, 122.25]))}      # (large enough that c - value stays a valid size for any value the check substitutes)
    return {"k": "sqrt", "i": i}


CHANNELS = [["red", "green"], ["red", "green", "blue"], ["a", "b"]]


def _gen_struct(rng, shape, npool):
    S = lambda **kw: _site(rng, npool, **kw)
    vec = lambda n: [S() for _ in range(n)]

    def index(layers=None):
        """refractive index: one site, or (every fifth time) a per-channel dictionary of sites / of per-layer lists of sites"""
        one = (lambda: S(allow_complex=True)) if layers is None else (lambda: {"k": "list", "items": [S(allow_complex=True) for _ in range(layers)]})
        if rng.random() < 0.2:
            labs = CHANNELS[int(rng.integers(0, len(CHANNELS)))]
            return {"k": "chan", "d": {l: one() for l in labs}}
        return None
    if shape == "sphere":
        return {"t": "sphere", "n": index() or S(allow_complex=True), "r": S(), "center": vec(3)}
    if shape.startswith("layered"):
        L = int(shape[-1])
        ch = index(L)
        if ch is not None:
            return {"t": "layered_chan", "n": ch, "r": vec(L), "center": vec(3)}
        return {"t": "layered", "n": [S(allow_complex=True) for _ in range(L)], "r": vec(L), "center": vec(3)}
    if shape.startswith("spheres"):
        m = int(shape[-1])
        return {"t": "spheres", "members": [{"t": "sphere", "n": index() or S(allow_complex=True), "r": S(), "center": vec(3)} for _ in range(m)]}
    if shape == "spheroid":
        return {"t": "spheroid", "n": S(), "r": vec(2), "rotation": vec(3), "center": vec(3)}
    if shape == "cylinder":
        return {"t": "cylinder", "n": S(), "h": S(), "d": S(), "rotation": vec(3), "center": vec(3)}
    if shape == "rigid":
        m = int(rng.integers(2, 4))
        return {"t": "rigid", "members": [{"t": "sphere", "n": S(), "r": S(), "center": vec(3)} for _ in range(m)],
                "rotation": vec(3), "translation": vec(3)}
    raise ValueError(shape)


def _gen_pool(rng, npool):
    pool = []
    names = [None, None, None, "a", "b", "r", "n", "a", "center.0", "x_0"]
    for i in range(npool):
        kind = ["U", "G", "BG"][int(rng.integers(0, 3))]
        lo = float(rng.uniform(0.5, 2.0))     # continuous draws: pool priors are pairwise unequal, so a parameter identifies its prior
        pool.append({"kind": kind, "lo": lo, "hi": lo + float(rng.uniform(0.5, 2.0)), "name": names[int(rng.integers(0, len(names)))]})
    return pool


SHAPES = ["sphere", "layered2", "layered3", "spheres1", "spheres2", "spheres3", "spheres4", "spheroid", "cylinder", "rigid"]


def cases(tier, seed):
    out = []
    rng = rng_for(seed, "c11")
    n = 300 if tier == "quick" else 8000
    for i in range(n):
        shape = SHAPES[i % len(SHAPES)]
        npool = int(rng.integers(1, 7))
        c = {"id": "struct-%d" % i, "kind": "struct", "shape": shape, "pool": _gen_pool(rng, npool), "struct": _gen_struct(rng, shape, npool),
             "model": ["alpha", "exact"][i % 2], "seed": [seed, "struct", i],
             # every fourth structure hands its sequences (orientation, translation, semi-axes, per-layer values) over as NumPy arrays
             "arrays": bool(i % 4 == 2)}
        # priors outside the scatterer mostly come from their own objects, each used once; every fifth one is a prior object that
        # is ALSO used inside the scatterer (one distinct prior is one parameter wherever it is used: F110)
        extra = []

        def own(p_prior):
            if rng.random() > p_prior:
                return {"k": "fix", "v": float(rng.uniform(0.5, 3.0))}
            if rng.random() < 0.2:
                return {"k": "p", "i": int(rng.integers(0, npool))}
            extra.append(_gen_pool(rng, 1)[0])
            j = npool + len(extra) - 1
            return {"k": "p", "i": j} if rng.random() < 0.7 else {"k": "lin", "i": j, "a": 2.0, "b": 0.5}
        if shape in ("sphere", "spheres2") and i % 3 == 0:
            c["theory"] = {"t": ["MieLens", "AberratedMieLens"][(i // 3) % 2], "lens_angle": own(0.8), "sa": own(0.8)}
        c["alpha"] = own(0.5)
        c["optics"] = {"medium_index": own(0.3), "illum_wavelen": own(0.3), "noise_sd": own(0.3)}
        c["pool"] = c["pool"] + extra
        out.append(c)
    # name-collision structures: several priors each shared across members at the same attribute, explicit names
    # equal to the short names the mapper would invent
    pats = [[0, 1, 0, 1], [0, 0, 1, 1], [0, 1, 1, 0], [0, 1, 0], [0, 0, 1], [0, 1, 2, 0, 1, 2][:4]]
    for i in range(len(pats) * (2 if tier == "quick" else 20)):
        pat = pats[i % len(pats)]
        attr = ["r", "n", "center.0"][(i // len(pats)) % 3]
        named = [None, attr.split(".")[0], "r", "n_0"][(i // 3) % 4]
        pool = _gen_pool(rng, max(pat) + 2)
        for q in pool:
            q["name"] = None
        pool[-1]["name"] = named
        members = []
        for j, k in enumerate(pat):
            m_ = {"t": "sphere", "n": {"k": "fix", "v": 1.5}, "r": {"k": "fix", "v": 0.5}, "center": [{"k": "fix", "v": float(j)}, {"k": "fix", "v": 0.0}, {"k": "fix", "v": 10.0}]}
            site = {"k": "p", "i": k}
            if attr == "center.0":
                m_["center"][0] = site
            else:
                m_[attr] = site
            members.append(m_)
        # one more prior, explicitly named, somewhere else
        members[0]["center"][2] = {"k": "p", "i": len(pool) - 1}
        out.append({"id": "collide-%d" % i, "kind": "struct", "shape": "spheres%d" % len(pat), "pool": pool, "struct": {"t": "spheres", "members": members},
                    "model": "alpha", "alpha": {"k": "fix", "v": 0.8}, "optics": {"medium_index": {"k": "fix", "v": 1.33}, "illum_wavelen": {"k": "fix", "v": 0.66}, "noise_sd": {"k": "fix", "v": 0.1}},
                    "seed": [seed, "collide", i]})
    # ties: bounded-exhaustive subsets of equal candidates
    k = 0
    for ncand in range(2, 6):
        subsets = [list(s) for r in range(2, ncand + 1) for s in itertools.combinations(range(ncand), r)]
        reps = 1 if tier == "quick" else 4
        for rep in range(reps):
            for sub in subsets:
                out.append({"id": "tie-%d" % k, "kind": "tie", "ncand": ncand, "subset": sub, "new_name": [None, "tied", "r"][k % 3],
                            "extra": int(rng.integers(0, 3)), "second": bool(k % 2), "seed": [seed, "tie", k], "pad": bool((k // 2) % 2)})
                k += 1
    for i in range(n // 3):
        out.append({"id": "rt-%d" % i, "kind": "roundtrip", "shape": SHAPES[i % len(SHAPES)], "seed": [seed, "rt", i]})
    # a rigid cluster as ONE MEMBER of a collection (next to a free sphere; either place in the list; nested one level deeper), and a
    # sphere whose per-channel index is a labelled array
    for i in range(8 if tier == "quick" else 200):
        out.append({"id": "nested-%d" % i, "kind": "nested", "shape": "nested_rigid", "rigid_place": i % 2, "deeper": bool((i // 2) % 2), "model": ["alpha", "exact"][(i // 4) % 2],
                    "seed": [seed, "nested", i]})
    return out


# ------------------------------------------------------------------ child

def _make_pool(pool):
    from holopy.core.prior import Uniform, Gaussian, BoundedGaussian
    objs = []
    for p in pool:
        if p["kind"] == "U":
            o = Uniform(p["lo"], p["hi"], name=p["name"])
        elif p["kind"] == "G":
            o = Gaussian((p["lo"] + p["hi"]) / 2, 0.3, name=p["name"])
        else:
            o = BoundedGaussian((p["lo"] + p["hi"]) / 2, 0.3, p["lo"], p["hi"], name=p["name"])
        objs.append(o)
    return objs


def _build_site(s, pool):
    from holopy.core.prior import ComplexPrior
    k = s["k"]
    if k == "fix":
        # (in array mode every other fixed number is a 0-d array, as indexing a NumPy array with an ellipsis or reading an attribute leaves it)
        return np.array(s["v"]) if _ARRAYS[0] and isinstance(s["v"], float) and int(s["v"] * 1e6) % 2 else s["v"]
    if k == "p":
        return pool[s["i"]]
    if k == "lin":
        return s["a"] * pool[s["i"]] + s["b"]
    if k == "sum":
        return pool[s["i"]] + pool[s["j"]]
    if k == "rsub":
        return np.float64(s["c"]) - pool[s["i"]]
    if k == "rdiv":
        return np.array([s["c"], 1.0])[0] / pool[s["i"]]
    if k == "sqrt":
        return np.sqrt(pool[s["i"]])
    if k == "cplx":
        return ComplexPrior(_build_site(s["re"], pool), _build_site(s["im"], pool))
    if k == "chan":
        return {l: _build_site(v, pool) for l, v in s["d"].items()}
    if k == "list":
        return _seq([_build_site(v, pool) for v in s["items"]])
    raise ValueError(k)


def _eval_site(s, val):
    """val(i) -> number for pool prior i"""
    k = s["k"]
    if k == "fix":
        return s["v"]
    if k == "p":
        return val(s["i"])
    if k == "lin":
        return s["a"] * val(s["i"]) + s["b"]
    if k == "sum":
        return val(s["i"]) + val(s["j"])
    if k == "rsub":
        return s["c"] - val(s["i"])
    if k == "rdiv":
        return s["c"] * (1.0 / val(s["i"]))
    if k == "sqrt":
        return float(np.sqrt(val(s["i"])))
    if k == "cplx":
        return complex(_eval_site(s["re"], val), _eval_site(s["im"], val))
    raise ValueError(k)


def _site_priors(s, acc):
    k = s["k"]
    if k in ("p", "lin", "sqrt", "rsub", "rdiv"):
        acc.append(s["i"])
    elif k == "sum":
        acc += [s["i"], s["j"]]
    elif k == "cplx":
        _site_priors(s["re"], acc); _site_priors(s["im"], acc)
    elif k == "chan":
        for v in s["d"].values():
            _site_priors(v, acc)
    elif k == "list":
        for v in s["items"]:
            _site_priors(v, acc)
    return acc


def _flat(prefix, s):
    """(path, leaf site) pairs of a possibly nested (per-channel dictionary / per-layer list) site"""
    if s["k"] == "chan":
        out = []
        for l, v in s["d"].items():
            out += _flat(prefix + "." + l, v)
        return out
    if s["k"] == "list":
        out = []
        for i, v in enumerate(s["items"]):
            out += _flat(prefix + ".%d" % i, v)
        return out
    return [(prefix, s)]


_ARRAYS = [False]     # sequences of sites are handed over as NumPy (object) arrays instead of lists (set per case by _run_struct)


def _seq(items):
    if _ARRAYS[0]:
        a = np.empty(len(items), dtype=object)
        for i, v in enumerate(items):
            a[i] = v
        return a
    return items


def _build_scatterer(st, pool):
    from holopy.scattering.scatterer import Sphere, Spheres, Spheroid, Cylinder, RigidCluster
    B = lambda s: _build_site(s, pool)
    t = st["t"]
    if t == "sphere":
        return Sphere(n=B(st["n"]), r=B(st["r"]), center=[B(c) for c in st["center"]])
    if t == "layered":
        return Sphere(n=[B(x) for x in st["n"]], r=[B(x) for x in st["r"]], center=[B(c) for c in st["center"]])
    if t == "layered_chan":
        return Sphere(n=B(st["n"]), r=[B(x) for x in st["r"]], center=[B(c) for c in st["center"]])
    if t == "spheres":
        mem = [_build_scatterer(m, pool) for m in st["members"]]
        # the members may be handed over in any sequence type (every third collection as a tuple: F120)
        return Spheres(tuple(mem) if len(mem) % 3 == 0 else mem, warn=False)
    if t == "spheroid":
        return Spheroid(n=B(st["n"]), r=_seq([B(x) for x in st["r"]]), rotation=_seq([B(x) for x in st["rotation"]]), center=[B(c) for c in st["center"]])
    if t == "cylinder":
        return Cylinder(n=B(st["n"]), h=B(st["h"]), d=B(st["d"]), rotation=_seq([B(x) for x in st["rotation"]]), center=[B(c) for c in st["center"]])
    if t == "rigid":
        base = Spheres([_build_scatterer(m, pool) for m in st["members"]], warn=False)
        return RigidCluster(base, translation=_seq([B(x) for x in st["translation"]]), rotation=_seq([B(x) for x in st["rotation"]]))
    raise ValueError(t)


def _sites(st, prefix=""):
    """list of (path, site) for a structure"""
    out = []
    t = st["t"]
    if t in ("sphere", "layered", "layered_chan"):
        if t == "sphere":
            out += _flat(prefix + "n", st["n"]) + [(prefix + "r", st["r"])]
        elif t == "layered_chan":
            out += _flat(prefix + "n", st["n"]) + [(prefix + "r.%d" % i, s) for i, s in enumerate(st["r"])]
        else:
            out += [(prefix + "n.%d" % i, s) for i, s in enumerate(st["n"])] + [(prefix + "r.%d" % i, s) for i, s in enumerate(st["r"])]
        out += [(prefix + "center.%d" % i, s) for i, s in enumerate(st["center"])]
    elif t in ("spheres",):
        for i, m in enumerate(st["members"]):
            out += _sites(m, prefix + "%d:" % i)
    elif t == "rigid":
        for i, m in enumerate(st["members"]):
            out += _sites(m, prefix + "%d:" % i)
        out += [(prefix + "rotation.%d" % i, s) for i, s in enumerate(st["rotation"])] + [(prefix + "translation.%d" % i, s) for i, s in enumerate(st["translation"])]
    elif t == "spheroid":
        out += [(prefix + "n", st["n"])] + [(prefix + "r.%d" % i, s) for i, s in enumerate(st["r"])]
        out += [(prefix + "rotation.%d" % i, s) for i, s in enumerate(st["rotation"])] + [(prefix + "center.%d" % i, s) for i, s in enumerate(st["center"])]
    elif t == "cylinder":
        out += [(prefix + "n", st["n"]), (prefix + "h", st["h"]), (prefix + "d", st["d"])]
        out += [(prefix + "rotation.%d" % i, s) for i, s in enumerate(st["rotation"])] + [(prefix + "center.%d" % i, s) for i, s in enumerate(st["center"])]
    return out


def _read(obj, path):
    """read the value at `path` from a rebuilt (physical) scatterer"""
    if ":" in path:
        i, rest = path.split(":", 1)
        return _read(obj.scatterers[int(i)], rest)
    if "." in path:
        parts = path.split(".")
        v = getattr(obj, parts[0])
        for j in parts[1:]:
            if isinstance(v, dict):
                v = v[j] if j in v else v[int(j)]
            elif isinstance(v, (list, tuple)):
                v = v[int(j)]
            else:
                v = np.asarray(v).tolist()[int(j)]
        return v
    v = getattr(obj, path)
    if isinstance(v, np.ndarray) and v.ndim == 0:
        v = v.item()
    return v


def _Rz(t):
    c, s = math.cos(t), math.sin(t)
    return np.array([[c, -s, 0], [s, c, 0], [0, 0, 1.0]])


def _Ry(t):
    c, s = math.cos(t), math.sin(t)
    return np.array([[c, 0, s], [0, 1.0, 0], [-s, 0, c]])


def _check_placement(model, st, pool, index_of, values, label, resid, flags, witness, prebuilt=None):
    """values: list in model parameter order; index_of(pool index) -> model parameter index"""
    val = lambda i: values[index_of(i)]
    names = list(model.parameters.keys())
    if prebuilt is not None:
        built = built_d = prebuilt
    else:
        built = model.scatterer_from_parameters(list(values))
        built_d = model.scatterer_from_parameters({nm: v for nm, v in zip(names, values)})
    sites = _sites(st)
    worst = 0.0
    if st["t"] == "rigid":
        # equivalent rotated and translated collection
        nm_ = len(st["members"])
        cen = np.array([[_eval_site(s, val) for s in m["center"]] for m in st["members"]], dtype=float)
        rot = [_eval_site(s, val) for s in st["rotation"]]
        tr = np.array([_eval_site(s, val) for s in st["translation"]], dtype=float)
        com = cen.mean(0)
        R = _Rz(rot[2]) @ _Ry(rot[1]) @ _Rz(rot[0])
        exp_c = com + (R @ (cen - com).T).T + tr
        got_c = np.array([np.asarray(s.center, dtype=float) for s in built.scatterers])
        err = float(np.abs(got_c - exp_c).max() / (np.abs(exp_c).max() + 1))
        if not err <= 1e-12:
            flags["place.rigidcluster" + label] = False
            witness.append("rigid cluster centres differ by %.3e (rotation=%s translation=%s)" % (err, rot, tr.tolist()))
        sites = [(p, s) for p, s in sites if not p.startswith(("rotation", "translation")) and ".center" not in p and ":center" not in p]
    for path, s in sites:
        exp = _eval_site(s, val)
        for b, how in ((built, "list"), (built_d, "dict")):
            try:
                got = _read(b, path)
            except Exception as e:
                flags["place.unreadable" + label] = False
                witness.append("%s: cannot read (%s)" % (path, e))
                continue
            try:
                err = abs(complex(got) - complex(exp)) / max(abs(complex(exp)), 1e-300)
            except Exception:
                err = float("inf")
            tol = 0.0 if s["k"] in ("fix", "p") else 1e-14
            if not err <= tol:
                key = "place.%s.%s%s" % (s["k"], how, label)
                flags[key] = False
                witness.append("%s (%s, %s): got %r expected %r" % (path, s["k"], how, got, exp))
            worst = max(worst, err if err == err and err != float("inf") else 1.0)
    resid["placement" + label] = fnum(worst)
    return built


def _poke(sc):
    """edit a built scatterer the way downstream code might (shift it, change its index)"""
    try:
        members = getattr(sc, "scatterers", None) or [sc]
        for m in members:
            if hasattr(m, "center") and m.center is not None:
                m.center = np.asarray(m.center, dtype=float) + 1.0
            if hasattr(m, "n") and not isinstance(m.n, dict):
                m.n = 9.75
    except Exception:
        pass


def run_case(case):
    return globals()["_run_" + case["kind"]](case)


def _mk_model(case, pool, scatterer):
    from holopy.inference import AlphaModel, ExactModel
    from holopy.scattering.theory import Mie, MieLens
    from holopy.scattering.theory.mielens import AberratedMieLens
    B = lambda s: _build_site(s, pool)
    th = Mie
    if case.get("theory"):
        t = case["theory"]
        if t["t"] == "MieLens":
            th = MieLens(lens_angle=B(t["lens_angle"]))
        else:
            th = AberratedMieLens(spherical_aberration=B(t["sa"]), lens_angle=B(t["lens_angle"]))
    elif case["struct"]["t"] in ("spheroid", "cylinder"):
        from holopy.scattering.theory import Tmatrix
        th = Tmatrix
    o = case["optics"]
    kw = dict(noise_sd=B(o["noise_sd"]), medium_index=B(o["medium_index"]), illum_wavelen=B(o["illum_wavelen"]), illum_polarization=(1, 0), theory=th)
    if case["model"] == "alpha":
        return AlphaModel(scatterer, alpha=B(case["alpha"]), **kw)
    return ExactModel(scatterer, **kw)


def _run_struct(case):
    from vf.monitors import digest
    _ARRAYS[0] = bool(case.get("arrays"))
    pool = _make_pool(case["pool"])
    st = case["struct"]
    scatterer = _build_scatterer(st, pool)
    d0 = digest(scatterer)
    model = _mk_model(case, pool, scatterer)
    flags, resid, witness = {}, {}, []
    # which pool priors are reachable, in any part of the model
    used = []
    for _, s in _sites(st):
        _site_priors(s, used)
    if case.get("theory"):
        _site_priors(case["theory"]["lens_angle"], used)
        if case["theory"]["t"] == "AberratedMieLens":
            _site_priors(case["theory"]["sa"], used)
    if case["model"] == "alpha":
        _site_priors(case["alpha"], used)
    for k in ("medium_index", "illum_wavelen", "noise_sd"):
        _site_priors(case["optics"][k], used)
    distinct = sorted(set(used))
    pars = model.parameters
    names = list(pars.keys())
    plist = list(pars.values())
    flags["one_parameter_per_distinct_prior"] = bool(len(model._parameters) == len(distinct) == len(names))
    flags["names_unique"] = bool(len(set(model._parameter_names)) == len(model._parameter_names) == len(model.parameters) == len(model.initial_guess))
    # every model parameter is (a copy of) exactly one of the pool priors; pool priors are pairwise unequal
    idx = {}
    ok = True
    for j, p in enumerate(model._parameters):
        hit = [i for i in distinct if pool[i].renamed(None) == p.renamed(None) and type(pool[i]) is type(p)]
        if len(hit) != 1:
            ok = False
        else:
            idx[hit[0]] = j
    flags["parameters_are_the_prior_objects"] = bool(ok and len(idx) == len(distinct))
    if not flags["parameters_are_the_prior_objects"]:
        return {"resid": resid, "flags": flags, "witness": witness, "nparams": len(names)}
    # named priors keep their name unless it collides
    for i in distinct:
        nm = case["pool"][i]["name"]
        if nm is not None:
            got = names[idx[i]]
            if not (got == nm or got.startswith(nm + "_")):
                flags["named_prior_keeps_name"] = False
                witness.append("prior named %r appears as %r" % (nm, got))
    rng = rng_for(*case["seed"])
    index_of = lambda i: idx[i]
    for rep in range(3):
        perm = rng.permutation(len(names))
        values = [1.1 + 0.37 * float(perm[j]) + 0.01 * rep for j in range(len(names))]
        if rep == 2:
            # exact zeros are values like any other (integer 0 and float 0.0), for scatterer, theory and optics parameters alike
            # (not for a prior that some site divides by: c / 0 has no value)
            divisors = set()
            def _divs(o):
                if isinstance(o, dict):
                    if o.get("k") == "rdiv":
                        divisors.add(idx[o["i"]])
                    for v_ in o.values():
                        _divs(v_)
                elif isinstance(o, list):
                    for v_ in o:
                        _divs(v_)
            _divs(st); _divs(case.get("theory")); _divs(case.get("alpha")); _divs(case.get("optics"))
            for j in range(len(names)):
                if rng.random() < 0.4 and j not in divisors:
                    values[j] = [0.0, 0, -0.0][int(rng.integers(0, 3))]
        built = _check_placement(model, st, pool, index_of, values, "", resid, flags, witness)
        if case.get("theory"):
            th = model.theory_from_parameters(list(values))
            t = case["theory"]
            val = lambda i: values[idx[i]]
            exp = _eval_site(t["lens_angle"], val)
            if not abs(th.lens_angle - exp) <= 1e-14 * abs(exp):
                flags["place.theory.lens_angle"] = False
                witness.append("lens_angle got %r expected %r" % (th.lens_angle, exp))
            if t["t"] == "AberratedMieLens":
                exp = _eval_site(t["sa"], val)
                if not abs(th.spherical_aberration - exp) <= 1e-14 * abs(exp):
                    flags["place.theory.spherical_aberration"] = False
                    witness.append("spherical_aberration got %r expected %r" % (th.spherical_aberration, exp))
            flags["theory_class_kept"] = bool(type(th) is type(model.theory))
    # a caller that sweeps or optimises keeps one vector and updates it in place between builds (a list, then a numpy vector); a value
    # vector equal to the previous one gives an equal but separate scatterer, and editing a scatterer that was handed out changes no later one
    if names:
        for form in ("list", "array"):
            vec = [0.0] * len(names) if form == "list" else np.zeros(len(names))
            for rep in range(3):
                perm = rng.permutation(len(names))
                for j in range(len(names)):
                    vec[j] = 2.3 + 0.41 * float(perm[j]) + 0.02 * rep
                b = model.scatterer_from_parameters(vec)
                _check_placement(model, st, pool, index_of, [float(v) for v in vec], "@inplace_" + form, resid, flags, witness, prebuilt=b)
            again = model.scatterer_from_parameters(vec)
            flags["equal_values_give_separate_scatterers"] = bool(again is not b and digest(again) == digest(b)) and flags.get("equal_values_give_separate_scatterers", True)
            d_b = digest(again)
            _poke(b)
            third = model.scatterer_from_parameters(vec)
            if digest(third) != d_b:
                flags["editing_a_built_scatterer_leaks"] = False
                witness.append("a scatterer built earlier was edited; the next build from the same values differs")
    # initial guess uses each prior's guess
    ig = model.initial_guess
    flags["initial_guess_values"] = bool(all(ig[names[idx[i]]] == pool[i].guess for i in distinct))
    gvals = [ig[nm] for nm in names]
    try:
        gs = model.initial_guess_scatterer
        g2 = model.scatterer_from_parameters(gvals)
        flags["initial_guess_scatterer"] = bool(digest(gs) == digest(g2))
    except Exception as e:
        flags["initial_guess_scatterer"] = False
        witness.append("initial_guess_scatterer raised %r" % (e,))
    _check_placement(model, st, pool, index_of, gvals, "@guess", resid, flags, witness)
    flags["scatterer_with_priors_untouched"] = bool(digest(scatterer) == d0)
    return {"resid": resid, "flags": flags, "witness": witness[:6], "nparams": len(names), "names": names[:12]}


def _run_tie(case):
    from holopy.core.prior import Uniform, Gaussian
    from holopy.scattering.scatterer import Sphere, Spheres
    from holopy.inference import AlphaModel
    from holopy.scattering.theory import Mie
    rng = rng_for(*case["seed"])
    nc = case["ncand"]
    # nc equal-but-distinct priors at the radii of nc spheres, plus unrelated priors before / between / after them
    cand = [Uniform(0.4, 0.9) for _ in range(nc)]
    extras = [Gaussian(1.5 + 0.1 * j, 0.1) for j in range(case["extra"] + 1)]
    members = []
    st_members = []
    for j in range(nc):
        n_site = extras[j % len(extras)] if j % 2 == 0 else 1.59
        cen = [float(j), 0.5, 10.0 + j]
        if case.get("pad"):
            # every centre coordinate is a (distinct) parameter too: tie candidates then sit 4-5 positions apart, at indices >= 8
            cen = [Uniform(j + 0.001 * k, j + 1.0 + 0.002 * k) for k in range(3)]
        members.append(Sphere(n=n_site, r=cand[j], center=cen))
    model = AlphaModel(Spheres(members, warn=False), alpha=Uniform(0.5, 1.0), noise_sd=0.1, medium_index=1.33, illum_wavelen=0.66, illum_polarization=(1, 0), theory=Mie)
    names0 = list(model._parameter_names)
    params0 = list(model._parameters)
    cand_names = ["%d:r" % j for j in range(nc)]      # unnamed priors are named by their place
    extra_name = {}
    for q, p in enumerate(params0):
        for e_i, e in enumerate(extras):
            if isinstance(p, Gaussian) and p.mu == e.mu:
                extra_name[e_i] = names0[q]
    flags, witness = {}, []
    flags["candidates_named_by_place"] = bool(all(nm in names0 for nm in cand_names))
    if not flags["candidates_named_by_place"]:
        return {"resid": {}, "flags": flags, "witness": [str(names0)], "nparams": len(names0)}
    sub = case["subset"]
    tie_names = [cand_names[j] for j in sub]
    # tying nothing, tying a parameter to itself, and a name that another parameter already has leave the model as it was (the last one
    # is refused): the names stay unique and every value keeps its place (F118, F119)
    from vf.monitors import digest as _dg
    d_model = _dg(model)
    try:
        model.add_tie([])
        model.add_tie([cand_names[0], cand_names[0]])
        flags["empty_and_self_ties_change_nothing"] = bool(_dg(model) == d_model)
    except Exception as e:
        flags["empty_and_self_ties_change_nothing"] = False
        witness.append("add_tie([]) / add_tie([a, a]) raised %r" % (e,))
    other = [nm for nm in names0 if nm not in tie_names]
    if other:
        try:
            model.add_tie(list(tie_names), new_name=other[int(rng.integers(0, len(other)))])
            flags["tie_named_like_another_parameter"] = bool(len(set(model._parameter_names)) == len(model._parameter_names) == len(model.parameters))
            witness.append("add_tie accepted the name of another parameter: %s" % list(model._parameter_names))
            return {"resid": {}, "flags": flags, "witness": witness, "nparams": len(names0)}
        except ValueError:
            flags["refused_name_leaves_model_unchanged"] = bool(_dg(model) == d_model)
    # hostile orders: the subset is passed in a shuffled order
    order = list(rng.permutation(len(tie_names)))
    model.add_tie([tie_names[o] for o in order], new_name=case["new_name"])
    names1 = list(model._parameter_names)
    flags["count"] = bool(len(names1) == len(names0) - (len(sub) - 1) and len(model._parameters) == len(names1))
    flags["names_unique"] = bool(len(set(names1)) == len(names1))
    kept_idx = min(names0.index(nm) for nm in tie_names)
    removed = set(tie_names) - {names0[kept_idx]}
    exp_names = [nm for nm in names0 if nm not in removed]
    if case["new_name"] is not None:
        exp_names[exp_names.index(names0[kept_idx])] = case["new_name"]
    flags["exactly_duplicates_removed"] = bool(names1 == exp_names)
    # placement after the tie: every tied radius follows the single surviving parameter, others keep following their own
    def groups_after(ties):
        grp = {}
        for j in range(nc):
            grp[j] = j
        for t in ties:
            root = min(t)
            for j in t:
                grp[j] = root
        return grp
    ties = [sub]
    if case["second"]:
        rest = [j for j in range(nc) if j not in sub]
        if len(rest) >= 2:
            names_now = list(model._parameter_names)
            second = [cand_names[j] for j in rest[:2]]
            model.add_tie(second)
            ties.append(rest[:2])
            flags["second_tie_count"] = bool(len(model._parameter_names) == len(names_now) - 1)
    names2 = list(model._parameter_names)
    params2 = list(model._parameters)
    values = [1.1 + 0.37 * k for k in range(len(names2))]
    built = model.scatterer_from_parameters(values)
    grp = groups_after(ties)
    first_tie_survivor = case["new_name"] if case["new_name"] is not None else cand_names[min(sub)]
    for j in range(nc):
        root = grp[j]
        surv = first_tie_survivor if root == min(sub) and j in sub else cand_names[root]
        if surv not in names2:
            flags["survivor_is_first"] = False
            witness.append("group of sphere %d: surviving name %r not among %s" % (j, surv, names2))
            continue
        got = built.scatterers[j].r
        if got != values[names2.index(surv)]:
            flags["radius_follows_tied_parameter"] = False
            witness.append("sphere %d radius %r expected %r (%s)" % (j, got, values[names2.index(surv)], surv))
        if j % 2 == 0:
            en = extra_name[j % len(extras)]
            if built.scatterers[j].n != values[names2.index(en)]:
                flags["untied_parameter_still_in_place"] = False
                witness.append("sphere %d index %r expected %r" % (j, built.scatterers[j].n, values[names2.index(en)]))
        else:
            if built.scatterers[j].n != 1.59:
                flags["fixed_value_untouched"] = False
        if case.get("pad"):
            for k in range(3):
                cn = "%d:center.%d" % (j, k)
                if cn not in names2 or built.scatterers[j].center[k] != values[names2.index(cn)]:
                    flags["untied_parameter_still_in_place"] = False
                    witness.append("sphere %d centre[%d] %r expected value of %s" % (j, k, built.scatterers[j].center[k], cn))
    # dict form agrees
    bd = model.scatterer_from_parameters({nm: v for nm, v in zip(names2, values)})
    from vf.monitors import digest
    flags["dict_equals_list"] = bool(digest(bd) == digest(built))
    flags["alpha_still_a_parameter"] = bool("alpha" in names2)
    # error cases
    try:
        model.add_tie([names2[0], "no_such_parameter"])
        flags["unknown_name_rejected"] = False
    except ValueError:
        flags["unknown_name_rejected"] = True
    uneq = [nm for nm, p in zip(names2, params2) if isinstance(p, Gaussian)]
    if uneq:
        try:
            model.add_tie([uneq[0], [nm for nm, p in zip(names2, params2) if isinstance(p, Uniform)][0]])
            flags["unequal_rejected"] = False
        except ValueError:
            flags["unequal_rejected"] = True
    flags["failed_ties_changed_nothing"] = bool(list(model._parameter_names) == names2)
    return {"resid": {}, "flags": {k: bool(v) for k, v in flags.items()}, "witness": witness[:6], "nparams": len(names2)}


def _run_nested(case):
    from holopy.core.prior import Uniform
    from holopy.inference import AlphaModel, ExactModel
    from holopy.scattering import Sphere, Spheres, Scatterers
    from holopy.scattering.scatterer import RigidCluster
    from holopy.scattering.theory import Multisphere
    import xarray as xr
    rng = rng_for(*case["seed"])
    flags, witness = {}, []
    U = lambda lo, hi: Uniform(lo + float(rng.uniform(0, 0.01)), hi + float(rng.uniform(0, 0.01)))
    body = np.array([[0.0, 0.0, 0.0], [0.7, 0.1, 0.0], [0.0, 0.8, 0.3]])[: 2 + int(rng.integers(0, 2))]
    pri = {"tx": U(0.0, 1.0), "tz": U(3.0, 4.0), "alpha_rot": U(0.0, 1.0), "beta_rot": U(0.0, 1.0), "r": U(0.4, 0.6), "rs": U(0.2, 0.3)}
    ty = float(rng.uniform(1.0, 3.0))
    gamma = float(rng.uniform(0.0, 1.0))
    rc = RigidCluster(Spheres([Sphere(n=1.5, r=(pri["rs"] if j == 0 else 0.25), center=[float(v) for v in body[j]]) for j in range(len(body))], warn=False),
                      translation=[pri["tx"], ty, pri["tz"]], rotation=(pri["alpha_rot"], pri["beta_rot"], gamma))
    free = Sphere(n=1.6, r=pri["r"], center=[5.0, 5.0, 5.0])
    holder = Scatterers([rc]) if case["deeper"] else rc
    members = [holder, free] if case["rigid_place"] == 0 else [free, holder]
    comp = Scatterers(members)
    kw = dict(theory=Multisphere(), noise_sd=0.1, medium_index=1.33, illum_wavelen=0.66, illum_polarization=(1, 0))
    model = AlphaModel(comp, alpha=0.9, **kw) if case["model"] == "alpha" else ExactModel(comp, **kw)
    names = list(model.parameters.keys())
    plist = list(model._parameters)
    flags["one_parameter_per_distinct_prior"] = bool(len(plist) == len(pri) and all(any(q is p or q == p for q in plist) for p in pri.values()))
    vals = {k: float(rng.uniform(p.lower_bound, p.upper_bound)) for k, p in pri.items()}
    vec = [next(vals[k] for k, p in pri.items() if p == q) for q in plist]

    def check(built, v, label):
        idx = case["rigid_place"]
        got_rc = built.scatterers[idx]
        if case["deeper"]:
            got_rc = got_rc.scatterers[0]
        got_free = built.scatterers[1 - idx]
        R = _Rz(gamma) @ _Ry(v["beta_rot"]) @ _Rz(v["alpha_rot"])
        com = body.mean(0)
        want = com + (R @ (body - com).T).T + np.array([v["tx"], ty, v["tz"]])
        try:
            got = np.array([np.asarray(m_.center, dtype=float) for m_ in got_rc.scatterers])
            err = float(np.abs(got - want).max())
        except Exception as e:
            got, err = None, float("inf")
        if not err <= 1e-12:
            flags["place.nested_rigid_cluster" + label] = False
            witness.append("%s: cluster member centres %s expected %s" % (label, None if got is None else got.tolist(), want.tolist()))
        flags["place.free_sphere" + label] = bool(got_free.r == v["r"] and list(got_free.center) == [5.0, 5.0, 5.0])
        try:
            flags["place.cluster_member_radius" + label] = bool(got_rc.scatterers[0].r == v["rs"] and got_rc.scatterers[1].r == 0.25)
        except Exception:
            flags["place.cluster_member_radius" + label] = False
    check(model.scatterer_from_parameters(list(vec)), vals, "@list")
    check(model.scatterer_from_parameters({nm: x for nm, x in zip(names, vec)}), vals, "@dict")
    check(model.initial_guess_scatterer, {k: p.guess for k, p in pri.items()}, "@guess")
    # a sphere whose per-channel index is a labelled array: rebuilt from its own parameters it equals the original (== gives a truth value)
    nval = xr.DataArray([1.5, 1.6], dims=["illumination"], coords={"illumination": ["red", "green"]})
    sx = Sphere(n=nval, r=0.5, center=[1.0, 2.0, 3.0])
    try:
        flags["labelled_array_value_rebuilt_equals_original"] = bool((sx.from_parameters(sx.parameters) == sx) is True)
        other = Sphere(n=xr.DataArray([1.5, 1.6], dims=["illumination"], coords={"illumination": ["red", "blue"]}), r=0.5, center=[1.0, 2.0, 3.0])
        flags["labelled_array_other_labels_unequal"] = bool((other == sx) is False)
    except Exception as e:
        flags["labelled_array_value_rebuilt_equals_original"] = False
        witness.append("== raised %r" % (e,))
    return {"resid": {}, "flags": flags, "witness": witness[:4], "names": names, "nparams": len(names)}


def _run_roundtrip(case):
    """a physical scatterer rebuilt from its own parameter dictionary equals the original, sharing no mutable state"""
    from vf.monitors import digest
    from holopy.scattering.scatterer import Spheres
    rng = rng_for(*case["seed"])
    _ARRAYS[0] = False        # (equality of rebuilt objects is claimed for list / scalar arguments)
    npool = 1
    st = _gen_struct(rng, case["shape"], npool)
    # make every site fixed
    def fix(s):
        if isinstance(s, dict) and s.get("k") == "chan":
            return {"k": "chan", "d": {l: fix(v) for l, v in s["d"].items()}}
        if isinstance(s, dict) and s.get("k") == "list":
            return {"k": "list", "items": [fix(v) for v in s["items"]]}
        if isinstance(s, dict) and "k" in s:
            return {"k": "fix", "v": float(rng.uniform(0.3, 2.0))}
        if isinstance(s, dict):
            return {k: fix(v) for k, v in s.items()}
        if isinstance(s, list):
            return [fix(v) for v in s]
        return s
    st = fix(st)
    s = _build_scatterer(st, [])
    d0 = digest(s)
    pars = s.parameters
    dp = digest(pars)
    b = s.from_parameters(pars)
    flags, witness = {}, []
    if st["t"] == "rigid":
        # expected member centres from this file's own rotation matrices (not from the library's rotated/translated)
        cen = np.array([m.center for m in s.spheres.scatterers], dtype=float)
        rot = [float(v) for v in s.rotation]
        com = cen.mean(0)
        want = com + ((_Rz(rot[2]) @ _Ry(rot[1]) @ _Rz(rot[0])) @ (cen - com).T).T + np.asarray(s.translation, dtype=float)
        got = np.array([m.center for m in b.scatterers], dtype=float)
        flags["rigid_equivalent_collection"] = bool(np.allclose(got, want, rtol=0, atol=1e-12 * (1 + np.abs(want).max())) and
                                                    [m.r for m in b.scatterers] == [m.r for m in s.spheres.scatterers])
    else:
        flags["equals_original"] = bool(b == s and type(b) is type(s))
        for path, _ in _sites(st):
            try:
                if _read(b, path) != _read(s, path):
                    flags["site_values_equal"] = False
                    witness.append(path)
            except Exception:
                pass
    # parameters() hands out copies: mutating them or the rebuilt object leaves the original alone
    def poke(v, depth=0):
        """edit every mutable container reachable from v in place (innermost first)"""
        if depth > 6:
            return
        if isinstance(v, dict):
            for x in list(v.values()):
                poke(x, depth + 1)
            for kk in list(v.keys()):
                if not isinstance(v[kk], (dict, list, np.ndarray)):
                    v[kk] = -99.0
        elif isinstance(v, list):
            for x in v:
                poke(x, depth + 1)
            if v and not isinstance(v[0], (dict, list, np.ndarray)):
                v[0] = -99.0
        elif isinstance(v, np.ndarray) and v.size and v.flags.writeable and v.dtype.kind in "fc":
            v[...] = -99.0
    for k, v in pars.items():
        poke(v)
    flags["parameters_dict_is_a_copy"] = bool(digest(s) == d0)
    try:
        for m in (b.scatterers if hasattr(b, "scatterers") else [b]):
            c = m.center
            if isinstance(c, np.ndarray):
                c[0] = 1e9
            elif isinstance(c, list):
                c[0] = 1e9
            if isinstance(getattr(m, "r", None), list):
                m.r[0] = 1e9
            for attr in ("n", "r"):
                poke(getattr(m, attr, None))
    except Exception:
        pass
    flags["rebuilt_shares_no_mutable_state"] = bool(digest(s) == d0)
    return {"resid": {}, "flags": flags, "witness": witness[:5], "nparams": 1}


# ------------------------------------------------------------------ oracle

def judge(case, obs):
    out = []
    for k, v in obs["flags"].items():
        if not v:
            mech = "%s.%s" % (case["kind"], k.split("@")[0])
            out.append({"mech": mech, "detail": "flag %s false; shape=%s witness=%s names=%s" % (k, case.get("shape") or case.get("subset"), obs.get("witness"), obs.get("names"))})
    return out


def nontrivial(case, obs):
    return obs.get("nparams", 0) >= 1


def evidence_extra(cases, obs):
    ties = [c for c in cases if c["kind"] == "tie"]
    by = {}
    for c in ties:
        by[c["ncand"]] = by.get(c["ncand"], 0) + 1
    return {"tie_subsets_enumerated_per_candidate_count": by,
            "exhaustive_subspace": "every subset of size >= 2 of 2..5 equal tie candidates (4, 4+... see counts), each in a shuffled order"}
