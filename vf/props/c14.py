"""C14 Priors are proper, match their samplers, and are closed under arithmetic."""
import math

import numpy as np

from ..util import rng_for, fnum, loguniform

NEEDS_FORTRAN = False
INSTALL_MONITORS = False
LEVEL_TEXT = ("Runtime monitoring of the real prior classes: densities, log-densities, samplers (fixed-seed KS and moment "
              "tests at alpha=1e-12 on 2e5 draws), guesses, scale/unscale and operator/ufunc-derived priors are executed "
              "on generated parameter choices over +-12 decades and random expression trees of depth <=3; the oracle "
              "re-evaluates the generated expression tree with plain numbers / seed-aligned base samples and the "
              "textbook densities. Statistical sub-claims are decided per fixed seed, not proven.")
LEVEL_NOTE = "Trusted: numpy RNG and scipy.stats/scipy.integrate used as references; KS/moment thresholds at alpha=1e-12 (deterministic per seed)."
TECHNIQUE = "runtime monitoring: generated priors and operator expressions through the real classes; reference-model oracle (expression tree re-evaluation, textbook densities, KS/moment tests)"
RULE = ("dens: Uniform/Gaussian/BoundedGaussian/ComplexPrior with bounds, means, widths log-uniform over 1e-12..1e12 "
        "(both signs, half-infinite), evaluated at bounds, +-1ulp, interior and far points; samp: sizes None/1/n and "
        "2e5-draw distribution tests; expr: random operator/ufunc trees; laws: identities, annihilators, rejections (every ufunc, numpy bools, complex / infinite / single-precision parameters). "
        "non-trivial = >=1 residual or flag evaluated; distinct by rounded case JSON")
ASSUMPTIONS = ["Uniform with an infinite bound is improper by design: prob 0, lnprob -1e6 (not flagged)",
               "BoundedGaussian densities are unnormalised by documentation; only support and shape are checked",
               "derived-prior samples are compared after seeding numpy's global RNG identically (leaf order left to right)"]
MIN_NONTRIVIAL = 10

NS = 200000


# ------------------------------------------------------------------ cases (parent)

def _rand_prior_spec(rng, kind=None, moderate=False):
    kind = kind or ["U", "G", "BG", "Uhalf"][int(rng.integers(0, 4))]
    mag = float(loguniform(rng, 0.1, 10)) if moderate else float(loguniform(rng, 1e-12, 1e12))
    sign = -1.0 if rng.random() < 0.4 else 1.0
    if kind == "U":
        lo = sign * mag
        width = abs(lo) * float(loguniform(rng, 1e-6, 1e3)) if not moderate else float(rng.uniform(0.2, 3))
        return {"t": "U", "lo": lo, "hi": lo + width}
    if kind == "Uhalf":
        return {"t": "U", "lo": sign * mag, "hi": float("inf")} if rng.random() < 0.5 else {"t": "U", "lo": float("-inf"), "hi": sign * mag}
    if kind == "G":
        return {"t": "G", "mu": sign * mag if rng.random() < 0.9 else 0.0, "sd": float(loguniform(rng, 1e-12, 1e12)) if not moderate else float(rng.uniform(0.1, 2))}
    mu = sign * mag
    sd = abs(mu) * float(loguniform(rng, 1e-3, 1e3)) if not moderate else float(rng.uniform(0.1, 2))
    a = float(rng.uniform(0.05, 3)); b = float(rng.uniform(0.05, 3))
    which = int(rng.integers(0, 4))
    lo = mu - a * sd if which != 1 else float("-inf")
    hi = mu + b * sd if which != 2 else float("inf")
    return {"t": "BG", "mu": mu, "sd": sd, "lo": lo, "hi": hi}


def _gen_tree(rng, depth, need_prior=True):
    """Random expression tree; returns (node, pos) where pos = value certainly > 0."""
    if depth == 0 or (depth < 3 and rng.random() < 0.25):
        if need_prior or rng.random() < 0.6:
            lo = float(rng.uniform(0.5, 2)); hi = lo + float(rng.uniform(0.2, 1.5))
            r0 = rng.random()
            if r0 < 0.3:
                return {"t": "G+", "mu": float(rng.uniform(2, 3)), "sd": 0.01}, True
            if r0 < 0.45:
                # whole-number parameters written as Python ints (Uniform(1, 5, guess=3), Gaussian(3, 0.01)): the guess is an int
                if rng.random() < 0.5:
                    a = int(rng.integers(1, 4))
                    return {"t": "Ui", "lo": a, "hi": a + int(rng.integers(2, 5)), "guess": a + 1}, True
                return {"t": "Gi", "mu": int(rng.integers(2, 11)), "sd": 0.01}, True
            return {"t": "U", "lo": lo, "hi": hi}, True
        v = float(rng.uniform(0.5, 3))
        as_ = ["float", "int", "np.float64", "np.int64"][int(rng.integers(0, 4))]
        if as_ in ("int", "np.int64"):
            v = float(int(rng.integers(2, 4)))
        if as_ == "np.float32":
            v = float(np.float32(v))
        return {"t": "c", "v": v, "as": as_}, True
    r = rng.random()
    if r < 0.55:
        op = ["+", "-", "*", "/", "**"][int(rng.integers(0, 5))]
        lp = need_prior and rng.random() < 0.5
        l, lpos = _gen_tree(rng, depth - 1, need_prior=lp)
        rgt, rpos = _gen_tree(rng, depth - 1, need_prior=need_prior and not lp)
        if op == "/" and not rpos:
            op = "*"
        if op == "**" and not lpos:
            op = "+"
        if op == "**":
            # keep magnitudes tame: exponent is a small constant or a leaf
            if rgt["t"] not in ("c", "U", "G+", "Ui", "Gi"):
                rgt, rpos = _gen_tree(rng, 0, need_prior=need_prior and not lp)
            if lp and rng.random() < 0.35:
                # integer exponents incl. negative and large ones (Python semantics: 3 ** -1 == 1/3, 10 ** 20 exact)
                ev = float([-1, -2, -3, 20, 25, 0][int(rng.integers(0, 6))])
                # (numpy refuses integer ** negative numpy-integer by design, so negative exponents are Python ints)
                rgt, rpos = {"t": "c", "v": ev, "as": "int" if ev < 0 else ["int", "np.int64"][int(rng.integers(0, 2))]}, False
        pos = {"+": lpos and rpos, "-": False, "*": lpos and rpos, "/": lpos and rpos, "**": lpos}[op]
        return {"t": "bin", "op": op, "l": l, "r": rgt}, pos
    if r < 0.65:
        x, xp = _gen_tree(rng, depth - 1, need_prior)
        return {"t": "neg", "x": x}, False
    f = ["sqrt", "log", "sin", "cos", "abs", "exp", "square", "add", "multiply", "maximum", "arctan2", "hypot"][int(rng.integers(0, 12))]
    if f in ("add", "multiply", "maximum", "arctan2", "hypot"):
        lp = need_prior and rng.random() < 0.5
        a, ap = _gen_tree(rng, depth - 1, lp)
        b, bp = _gen_tree(rng, depth - 1, need_prior and not lp)
        pos = (ap and bp) if f in ("add", "multiply", "hypot", "arctan2") else (ap or bp)
        if f == "hypot":
            pos = True
        return {"t": "uf", "f": f, "args": [a, b]}, pos
    x, xp = _gen_tree(rng, depth - 1, need_prior)
    if f in ("sqrt", "log") and not xp:
        f = "abs"
    if f == "exp" and depth > 1:
        f = "cos"
    pos = {"sqrt": True, "log": False, "sin": False, "cos": False, "abs": True, "exp": True, "square": True}[f]
    return {"t": "uf", "f": f, "args": [x]}, pos


def cases(tier, seed):
    out = []
    nd = 600 if tier == "quick" else 6000
    ne = 1500 if tier == "quick" else 20000
    nsamp = 60 if tier == "quick" else 600
    rng = rng_for(seed, "c14cases")
    for i in range(nd):
        out.append({"id": "dens-%d" % i, "kind": "dens", "spec": _rand_prior_spec(rng), "seed": [seed, "dens", i]})
    # half-infinite and doubly infinite supports whose finite end (or guess) is exactly 0
    inf = float("inf")
    for i, sp in enumerate([{"t": "U", "lo": -inf, "hi": 0.0}, {"t": "U", "lo": 0.0, "hi": inf}, {"t": "U", "lo": -inf, "hi": inf},
                            {"t": "U", "lo": -inf, "hi": 5.0, "guess": 0.0}, {"t": "U", "lo": -3.0, "hi": inf, "guess": 0.0},
                            {"t": "U", "lo": -inf, "hi": -0.0}, {"t": "U", "lo": -2.0, "hi": 2.0}, {"t": "U", "lo": -inf, "hi": 1e-13}]):
        out.append({"id": "dens-cat-%d" % i, "kind": "dens", "spec": sp, "seed": [seed, "denscat", i]})
    for i in range(nd // 3):
        re = _rand_prior_spec(rng) if rng.random() < 0.7 else float(rng.normal())
        im = _rand_prior_spec(rng) if rng.random() < 0.5 else float(abs(rng.normal()))
        out.append({"id": "cplx-%d" % i, "kind": "cplx", "re": re, "im": im, "seed": [seed, "cplx", i]})
    for i in range(nsamp):
        out.append({"id": "samp-%d" % i, "kind": "samp", "spec": _rand_prior_spec(rng, kind=["U", "G", "BG"][i % 3]),
                    "npseed": int(rng.integers(0, 2 ** 31)), "cost": 5})
    for i in range(ne):
        tree, _ = _gen_tree(rng, int(rng.integers(1, 4)))
        out.append({"id": "expr-%d" % i, "kind": "expr", "tree": tree, "npseed": int(rng.integers(0, 2 ** 31)),
                    "size": [None, 1, 7][i % 3]})
    out.append({"id": "laws-0", "kind": "laws"})
    for i in range(nd // 3):
        out.append({"id": "bad-%d" % i, "kind": "bad", "seed": [seed, "bad", i]})
    return out


# ------------------------------------------------------------------ child

def _mk(spec):
    from holopy.core.prior import Uniform, Gaussian, BoundedGaussian
    if spec["t"] == "Ui":
        return Uniform(int(spec["lo"]), int(spec["hi"]), guess=int(spec["guess"]))
    if spec["t"] == "Gi":
        return Gaussian(int(spec["mu"]), spec["sd"])
    if spec["t"] == "U":
        return Uniform(spec["lo"], spec["hi"], guess=spec["guess"]) if "guess" in spec else Uniform(spec["lo"], spec["hi"])
    if spec["t"] in ("G", "G+"):
        return Gaussian(spec["mu"], spec["sd"])
    return BoundedGaussian(spec["mu"], spec["sd"], spec["lo"], spec["hi"])


def _support(spec):
    if spec["t"] == "U" or spec["t"] == "BG":
        return spec["lo"], spec["hi"]
    return float("-inf"), float("inf")


def _ref_logpdf(spec, p):
    lo, hi = _support(spec)
    if p < lo or p > hi:
        return float("-inf")
    if spec["t"] == "U":
        if math.isinf(lo) or math.isinf(hi):
            return None
        return -math.log(hi - lo)
    z = (p - spec["mu"]) / spec["sd"]
    return -0.5 * z * z - math.log(spec["sd"]) - 0.5 * math.log(2 * math.pi)


def run_case(case):
    return globals()["_run_" + case["kind"]](case)


def _eval_points(spec, rng):
    lo, hi = _support(spec)
    pts = []
    for b in (lo, hi):
        if math.isfinite(b):
            pts += [b, float(np.nextafter(b, -np.inf)), float(np.nextafter(b, np.inf))]
            pts += [b - abs(b) * 1e-9 - 1e-300, b + abs(b) * 1e-9 + 1e-300]
    if spec["t"] == "U":
        if not math.isfinite(lo) and not math.isfinite(hi):
            lo, hi = -1e3, 1e3       # (probe window of the doubly infinite prior)
        a = lo if math.isfinite(lo) else hi - 1e3 * (abs(hi) + 1)
        b = hi if math.isfinite(hi) else lo + 1e3 * (abs(lo) + 1)
        pts += list(rng.uniform(a, b, 8)) + [(a + b) / 2, a - (b - a), b + (b - a), 0.0, 1e100, -1e100]
    else:
        mu, sd = spec["mu"], spec["sd"]
        pts += [mu, mu + sd, mu - sd] + list(mu + sd * rng.normal(size=8)) + [mu + 30 * sd, mu - 45 * sd, mu + 1e3 * sd, 0.0]
    return [float(p) for p in pts if math.isfinite(p)]


def _run_dens(case):
    spec = case["spec"]
    rng = rng_for(*case["seed"])
    p = _mk(spec)
    lo, hi = _support(spec)
    resid, flags = {}, {}
    worst_lp, worst_ex = 0.0, 0.0
    ok_out, ok_in = True, True
    for x in _eval_points(spec, rng):
        lp = p.lnprob(x)
        pr = p.prob(x)
        inside = lo <= x <= hi
        if not inside:
            ok_out &= bool(pr == 0 and lp == -np.inf)
            continue
        ok_in &= bool(np.isfinite(lp) and pr >= 0)
        ref = _ref_logpdf(spec, x)
        if ref is None:   # improper uniform
            ok_in &= bool(pr == 0 and lp <= -745)
            continue
        worst_lp = max(worst_lp, abs(lp - ref) / max(1.0, abs(ref)))
        if pr == 0:
            # a density reported as 0 must lie below the NORMAL range (exp(-708.39) = 2.2e-308): in the subnormal range a product
            # such as exp(-z^2/2) * 1/(sd sqrt(2 pi)) may legitimately flush to zero (thorough seed 1: sd = 3e-12, z = 38.9)
            ok_in &= bool(lp <= -708.39)
        elif pr < 1e-290:
            # a density in (or next to) the subnormal range carries only a few significant bits: exp(lnprob) can only be
            # required to be just as small there
            ok_in &= bool(lp <= math.log(pr) + 1.0 and lp >= -760)
        else:
            worst_ex = max(worst_ex, abs(math.exp(lp) - pr) / pr / max(1.0, abs(lp)))
    flags["zero_outside_support"] = ok_out
    if spec["t"] in ("U", "BG", "G"):      # (G: F82)
        nan = float("nan")
        flags["nan_outside_support"] = bool(p.prob(nan) == 0 and p.lnprob(nan) == -np.inf and p.lnprob(np.float64("nan")) == -np.inf)
    flags["finite_inside_support"] = ok_in
    resid["lnprob_vs_textbook"] = fnum(worst_lp)
    resid["exp_lnprob_vs_prob"] = fnum(worst_ex)
    # normalisation
    if spec["t"] == "U" and math.isfinite(lo) and math.isfinite(hi):
        xs = np.linspace(lo, hi, 41)
        xs[0], xs[-1] = lo, hi
        v = np.array([p.prob(float(x)) for x in xs])
        resid["integral"] = fnum(abs(float(np.trapezoid(v, xs)) - 1) if hasattr(np, "trapezoid") else abs(float(np.trapz(v, xs)) - 1))
    elif spec["t"] == "G" and spec["sd"] >= 1e-6 * abs(spec["mu"]):
        from scipy.integrate import quad
        mu, sd = spec["mu"], spec["sd"]
        val, err = quad(lambda t: p.prob(mu + sd * t) * sd, -14, 14, points=[0.0], epsabs=1e-12, epsrel=1e-12, limit=200)
        resid["integral"] = fnum(abs(val - 1))
        val2, _ = quad(lambda t: math.exp(p.lnprob(mu + sd * t)) * sd, -14, 14, points=[0.0], epsabs=1e-12, epsrel=1e-12, limit=200)
        resid["integral@lnprob"] = fnum(abs(val2 - 1))
    # guess in support, scale/unscale
    g = p.guess
    flags["guess_in_support"] = bool(np.isfinite(g) and lo <= g <= hi)
    worst = 0.0
    for v in [g, lo, hi] + list(rng.normal(size=6) * (abs(g) + 1)):
        if not math.isfinite(v) or v == 0:
            continue
        s = p.scale(v)
        if not math.isfinite(s) or s == 0 or abs(s) < 1e-290:
            continue
        worst = max(worst, abs(p.unscale(s) - v) / abs(v))
    resid["unscale_scale"] = fnum(worst)
    flags["scale_factor_positive"] = bool(p.scale_factor > 0 and np.isfinite(p.scale_factor))
    return {"resid": resid, "flags": flags}


def _run_cplx(case):
    from holopy.core.prior import ComplexPrior
    rng = rng_for(*case["seed"])
    re = _mk(case["re"]) if isinstance(case["re"], dict) else case["re"]
    im = _mk(case["im"]) if isinstance(case["im"], dict) else case["im"]
    cp = ComplexPrior(re, im)
    resid, flags = {}, {}

    def part_lp(part, spec, x):
        if not isinstance(spec, dict):
            return 0.0
        return part.lnprob(x)
    worst = 0.0
    okinf = True
    for _ in range(8):
        xr = (_eval_points(case["re"], rng) if isinstance(case["re"], dict) else [float(re)])
        xi = (_eval_points(case["im"], rng) if isinstance(case["im"], dict) else [float(im)])
        x = complex(xr[int(rng.integers(0, len(xr)))], xi[int(rng.integers(0, len(xi)))])
        exp = part_lp(re, case["re"], x.real) + part_lp(im, case["im"], x.imag)
        got = cp.lnprob(x)
        if np.isfinite(exp):
            worst = max(worst, abs(got - exp) / max(1.0, abs(exp)))
            pr = cp.prob(x)
            worst = max(worst, abs(pr - math.exp(exp)) / max(math.exp(exp), 1e-300) / max(1.0, abs(exp)) if math.exp(exp) > 0 else abs(pr))
        else:
            okinf &= bool(got == -np.inf and cp.prob(x) == 0)
    resid["complex_lnprob_sum"] = fnum(worst)
    flags["complex_outside_support"] = okinf
    gre = re.guess if isinstance(case["re"], dict) else re
    gim = im.guess if isinstance(case["im"], dict) else im
    flags["complex_guess"] = bool(cp.guess == complex(gre, gim))
    # samples: proper parts only
    def samplable(spec):
        return not isinstance(spec, dict) or all(math.isfinite(v) for v in _support(spec)) or spec["t"] != "U"
    if samplable(case["re"]) and samplable(case["im"]):
        for size in (None, 1, 5):
            s = cp.sample(size)
            shape_ok = (np.ndim(s) == 0) if size is None else (np.shape(s) == (size,))
            flags["complex_sample_shape@%s" % size] = bool(shape_ok)
            sa = np.atleast_1d(s)
            insup = True
            for part, spec, vals_ in ((re, case["re"], sa.real), (im, case["im"], sa.imag)):
                if isinstance(spec, dict):
                    lo, hi = _support(spec)
                    insup &= bool(np.all((vals_ >= lo) & (vals_ <= hi)))
                else:
                    insup &= bool(np.all(vals_ == float(spec)))
            flags["complex_sample_support@%s" % size] = insup
    return {"resid": resid, "flags": flags}


def _ks(samples, cdf):
    x = np.sort(samples)
    n = len(x)
    F = cdf(x)
    i = np.arange(1, n + 1)
    return float(max(np.max(i / n - F), np.max(F - (i - 1) / n)))


def _run_samp(case):
    from scipy import stats
    spec = dict(case["spec"])
    if spec["t"] in ("G", "BG") and spec["sd"] < 1e-6 * abs(spec["mu"]):
        # samples of width sd around mu are not resolvable in binary64: the
        # distribution tests would measure quantisation, not the sampler
        spec["sd"] = 1e-6 * abs(spec["mu"])
        if spec["t"] == "BG":
            spec["lo"] = min(spec["lo"], spec["mu"] - 0.5 * spec["sd"]); spec["hi"] = max(spec["hi"], spec["mu"] + 0.5 * spec["sd"])
    if spec["t"] == "U" and not all(math.isfinite(v) for v in _support(spec)):
        spec = dict(spec, lo=-1.0 if not math.isfinite(spec["lo"]) else spec["lo"], hi=spec["lo"] + 2 if not math.isfinite(spec["hi"]) else spec["hi"])
        if spec["lo"] >= spec["hi"]:
            spec["lo"] = spec["hi"] - 1.0
    p = _mk(spec)
    lo, hi = _support(spec)
    resid, flags = {}, {}
    np.random.seed(case["npseed"])
    for size in (None, 1, 3):
        s = p.sample(size)
        flags["shape@%s" % size] = bool((np.ndim(s) == 0) if size is None else (np.shape(s) == (size,)))
        flags["support@%s" % size] = bool(np.all((np.asarray(s) >= lo) & (np.asarray(s) <= hi)))
    s = p.sample((4, 2)) if spec["t"] != "BG" else p.sample(8).reshape(4, 2)
    flags["shape@tuple"] = bool(np.shape(s) == (4, 2))
    x = np.asarray(p.sample(NS), dtype=float)
    flags["shape@n"] = bool(x.shape == (NS,))
    flags["support@n"] = bool(np.all((x >= lo) & (x <= hi)))
    flags["finite@n"] = bool(np.all(np.isfinite(x)))
    if spec["t"] == "U":
        cdf = lambda v: (v - lo) / (hi - lo)
        mu, sd = (lo + hi) / 2, (hi - lo) / math.sqrt(12)
    elif spec["t"] == "G":
        cdf = lambda v: stats.norm.cdf(v, spec["mu"], spec["sd"])
        mu, sd = spec["mu"], spec["sd"]
    else:
        a, b = (lo - spec["mu"]) / spec["sd"], (hi - spec["mu"]) / spec["sd"]
        tn = stats.truncnorm(a, b, loc=spec["mu"], scale=spec["sd"])
        cdf = tn.cdf
        mu, sd = float(tn.mean()), float(tn.std())
    resid["ks_D_sqrtn"] = fnum(_ks(x, cdf) * math.sqrt(NS))
    resid["mean_z"] = fnum(abs(x.mean() - mu) / (sd / math.sqrt(NS)))
    resid["sd_z"] = fnum(abs(x.std() / sd - 1) * math.sqrt(2 * NS))
    # reproducible for a given global seed, and consumes the global stream
    np.random.seed(case["npseed"]); a1 = p.sample(5)
    np.random.seed(case["npseed"]); a2 = p.sample(5)
    flags["seed_reproducible"] = bool(np.array_equal(a1, a2))
    return {"resid": resid, "flags": flags}


_UF = None


def _eval(node, leaf):
    """Evaluate the tree; leaf(node) gives the value for a prior leaf."""
    t = node["t"]
    if t in ("U", "G+", "Ui", "Gi"):
        return leaf(node)
    if t == "c":
        v = node["v"]
        return {"float": float, "int": lambda q: int(q), "np.float64": np.float64, "np.int64": lambda q: np.int64(int(q)),
                "np.float32": np.float32}[node["as"]](v)
    if t == "neg":
        return -_eval(node["x"], leaf)
    if t == "bin":
        l, r = _eval(node["l"], leaf), _eval(node["r"], leaf)
        op = node["op"]
        if op == "+":
            return l + r
        if op == "-":
            return l - r
        if op == "*":
            return l * r
        if op == "/":
            return l / r
        return l ** r
    if t == "uf":
        f = getattr(np, node["f"])
        return f(*[_eval(a, leaf) for a in node["args"]])
    raise ValueError(t)


def _prior_free(node):
    return not _leaves(node, [])


def _zero_factor(node):
    """some multiplication/division has a prior-free operand equal to 0 (or whose reciprocal is 0)."""
    t = node["t"]
    kids = {"neg": lambda: [node["x"]], "bin": lambda: [node["l"], node["r"]], "uf": lambda: node["args"]}.get(t, lambda: [])()
    if (t == "bin" and node["op"] in ("*", "/")) or (t == "uf" and node["f"] == "multiply"):
        for k in kids:
            if _prior_free(k):
                with np.errstate(all="ignore"):
                    v = _eval(k, None)
                if v == 0 or (t == "bin" and node["op"] == "/" and k is node["r"] and 1 / v == 0):
                    return True
    return any(_zero_factor(k) for k in kids)


def _leaves(node, out):
    t = node["t"]
    if t in ("U", "G+", "Ui", "Gi"):
        out.append(node)
    elif t == "neg":
        _leaves(node["x"], out)
    elif t == "bin":
        _leaves(node["l"], out); _leaves(node["r"], out)
    elif t == "uf":
        for a in node["args"]:
            _leaves(a, out)
    return out


def _run_expr(case):
    from holopy.core.prior import Prior, TransformedPrior
    tree = case["tree"]
    leaves = _leaves(tree, [])
    objs = {id(n): _mk(n) for n in leaves}
    resid, flags = {}, {}
    try:
        derived = _eval(tree, lambda n: objs[id(n)])
    except TypeError as e:
        # a prior-free sub-expression may evaluate to exactly 0 (e.g. 2 - 2):
        # multiplying a prior by it must raise, and does
        if "by 0" in str(e) and _zero_factor(tree):
            return {"resid": {}, "flags": {"mul_by_zero_subexpr_raises": True}, "skipped": "zero constant factor"}
        raise
    flags["is_prior"] = bool(isinstance(derived, Prior))
    if not isinstance(derived, Prior):
        return {"resid": resid, "flags": flags, "skipped": "no prior in tree"}
    try:
        with np.errstate(all="ignore"):
            gref = _eval(tree, lambda n: objs[id(n)].guess)
            gref = float(gref) if isinstance(gref, int) else gref
    except ValueError as e:
        # numpy refuses (numpy integer) ** (negative integer); the same operation on the guesses inside HoloPy must then
        # fail the same way -- it is the operation itself that is undefined, not the prior
        if "negative integer powers" not in str(e):
            raise
        return {"resid": {}, "flags": {"undefined_integer_power_raises_too": _raises(ValueError, lambda: derived.guess)}, "skipped": "operation undefined in numpy"}
    except (TypeError, OverflowError) as e:
        # the reference itself (plain Python / numpy on the leaf guesses, no HoloPy code involved) cannot be evaluated: integer
        # leaves raised to integer powers give Python integers beyond the range of a double, which numpy functions refuse
        return {"resid": {}, "flags": {}, "skipped": "reference not computable: %s" % type(e).__name__}
    if not np.all(np.isfinite(gref)) or abs(gref) > 1e100:
        return {"resid": {}, "flags": {}, "skipped": "reference not finite"}
    g = derived.guess
    # how far the reference itself moves when every leaf value moves by a few units in the last place: an expression that cancels
    # (log a - b/c with nearly equal terms) or amplifies (sin of 1e7) cannot be reproduced more closely than that by any evaluation order
    def _moved(vals):
        worst = 0.0
        for sgn in (1.0, -1.0):
            try:
                with np.errstate(all="ignore"):
                    alt = np.asarray(_eval(tree, lambda n: vals(n) * (1 + sgn * 4e-16) if not isinstance(vals(n), (int, np.integer)) else vals(n)), dtype=float)
            except Exception:
                return float("inf")
            ref = np.asarray(_eval(tree, vals), dtype=float)
            with np.errstate(all="ignore"):
                worst = max(worst, float(np.nanmax(np.abs(alt - ref) / np.maximum(np.abs(ref), 1e-300))))
        return worst
    cond_g = _moved(lambda n: objs[id(n)].guess)
    resid["guess"] = fnum(abs(g - gref) / max(abs(gref), 1e-300)) if gref != 0 else fnum(abs(g))
    size = case["size"]
    np.random.seed(case["npseed"])
    s = derived.sample(size)
    np.random.seed(case["npseed"])
    drawn = {}
    for n in leaves:   # left-to-right leaf order
        drawn[id(n)] = objs[id(n)].sample(size)
    with np.errstate(all="ignore"):
        sref = _eval(tree, lambda n: drawn[id(n)])
    flags["sample_shape"] = bool((np.ndim(s) == 0) if size is None else (np.shape(s) == (size,)))
    sref = np.asarray(sref, dtype=float)
    if np.all(np.isfinite(sref)) and np.all(np.abs(sref) < 1e100):
        sa = np.asarray(s, dtype=float)
        if sa.shape == sref.shape:
            den = np.maximum(np.abs(sref), 1e-300)
            resid["sample"] = fnum(np.max(np.abs(sa - sref) / den))
            cond_s = _moved(lambda n: drawn[id(n)])
        else:
            flags["sample_shape_vs_ref"] = False
    else:
        resid_skip = True
    # derived priors have no density of their own
    if isinstance(derived, TransformedPrior):
        try:
            derived.lnprob(1.0)
            flags["derived_lnprob_raises"] = False
        except NotImplementedError:
            flags["derived_lnprob_raises"] = True
    return {"resid": resid, "flags": flags, "cond": {"guess": fnum(cond_g), "sample": fnum(locals().get("cond_s", 0.0))}}


def _raises(exc, f):
    try:
        f()
    except exc:
        return True
    except Exception:
        return False
    return False


def _run_laws(case):
    from holopy.core.prior import Uniform, Gaussian, BoundedGaussian, ComplexPrior, TransformedPrior
    flags = {}
    for nm, p in (("U", Uniform(1.0, 2.0)), ("G", Gaussian(1.0, 0.5)), ("BG", BoundedGaussian(1.0, 0.5, 0, 3)),
                  ("T", Uniform(1.0, 2.0) + 3), ("C", ComplexPrior(Uniform(1, 2), 0.1))):
        flags[nm + ".add0"] = (p + 0) is p
        flags[nm + ".radd0"] = (0 + p) is p
        flags[nm + ".add0.0"] = (p + 0.0) is p
        flags[nm + ".sub0"] = (p - 0) is p
        flags[nm + ".mul1"] = (p * 1) is p
        flags[nm + ".rmul1"] = (1 * p) is p
        flags[nm + ".mul1.0"] = (p * 1.0) is p
        flags[nm + ".div1"] = (p / 1) is p
        flags[nm + ".mul_np1"] = (p * np.float64(1)) is p
        # numpy scalars on the LEFT (numpy dispatches these to __array_ufunc__, not to __rmul__ / __radd__)
        flags[nm + ".np1_mul"] = (np.float64(1) * p) is p
        flags[nm + ".npint1_mul"] = (np.int64(1) * p) is p
        flags[nm + ".np0_add"] = (np.float64(0) + p) is p
        flags[nm + ".np0_mul_raises"] = _raises(TypeError, lambda: np.float64(0) * p)
        flags[nm + ".npint0_mul_raises"] = _raises(TypeError, lambda: np.int64(0) * p)
        if nm != "C":
            flags[nm + ".np2_mul_guess"] = bool((np.float64(2) * p).guess == 2 * p.guess and (np.float32(2) * p).guess == 2 * p.guess)
        flags[nm + ".add_np0"] = (p + np.int64(0)) is p
        flags[nm + ".mul0_raises"] = _raises(TypeError, lambda: p * 0)
        flags[nm + ".rmul0_raises"] = _raises(TypeError, lambda: 0 * p)
        flags[nm + ".mul0.0_raises"] = _raises(TypeError, lambda: p * 0.0)
        flags[nm + ".mul_np0_raises"] = _raises(TypeError, lambda: p * np.float64(0))
        flags[nm + ".add_str_raises"] = _raises(TypeError, lambda: p + "a")
        flags[nm + ".mul_str_raises"] = _raises(TypeError, lambda: p * "a")
        flags[nm + ".add_none_raises"] = _raises(TypeError, lambda: p + None)
        flags[nm + ".mul_list_raises"] = _raises(TypeError, lambda: p * [1, 2])
        flags[nm + ".add_list_raises"] = _raises(TypeError, lambda: p + [1, 2])
        flags[nm + ".add_dict_raises"] = _raises(TypeError, lambda: p + {})
        flags[nm + ".mul_complex_raises"] = _raises(TypeError, lambda: p * 2j)
        arr = p + np.array([1.0, 2.0])
        flags[nm + ".add_array_elementwise"] = bool(isinstance(arr, np.ndarray) and arr.shape == (2,) and
                                                    all(isinstance(a, TransformedPrior) for a in arr) and
                                                    arr[0].guess == p.guess + 1.0 and arr[1].guess == p.guess + 2.0)
        arr = p * np.array([3.0, 2.0])
        flags[nm + ".mul_array_elementwise"] = bool(isinstance(arr, np.ndarray) and arr.shape == (2,) and
                                                    arr[0].guess == p.guess * 3.0 and arr[1].guess == p.guess * 2.0)
        # powers and the NumPy spellings of the operators follow the same operand rules (F74, F76)
        flags[nm + ".pow_str_raises"] = _raises(TypeError, lambda: p ** "a")
        flags[nm + ".pow_none_raises"] = _raises(TypeError, lambda: p ** None)
        flags[nm + ".rpow_str_raises"] = _raises(TypeError, lambda: "a" ** p)
        flags[nm + ".np_add_str_raises"] = _raises(TypeError, lambda: np.add(p, "a"))
        flags[nm + ".np_add_none_raises"] = _raises(TypeError, lambda: np.add(p, None))
        flags[nm + ".np_multiply_none_raises"] = _raises(TypeError, lambda: np.multiply(p, None))
        # ... for every NumPy function, not only the ones behind the arithmetic operators
        flags[nm + ".np_other_ufuncs_unsupported_raise"] = bool(_raises(TypeError, lambda: np.maximum(p, None)) and _raises(TypeError, lambda: np.arctan2(p, "a"))
                                                               and _raises(TypeError, lambda: np.hypot({}, p)) and _raises(TypeError, lambda: np.minimum(p, np.array(["a", "b"])))
                                                               and (nm == "C" or (_no_raise(lambda: np.maximum(p, 3.0).guess == max(p.guess, 3.0)) and _no_raise(lambda: np.hypot(np.float32(2), p) is not None))))
        # a NumPy boolean is the Python boolean, on either side
        flags[nm + ".numpy_bool_like_python_bool"] = bool(_no_raise(lambda: (p * np.bool_(True)) is p and (np.bool_(True) * p) is p and (p + np.bool_(False)) is p)
                                                          and _raises(TypeError, lambda: p * np.bool_(False)) and _raises((ZeroDivisionError, TypeError), lambda: p / np.bool_(False)))
        flags[nm + ".array_with_zero_times_prior_raises"] = _raises(TypeError, lambda: np.array([0, 1]) * p)
        arr = np.array([3.0, 2.0]) * p
        flags[nm + ".array_mul_elementwise"] = bool(isinstance(arr, np.ndarray) and arr.shape == (2,) and arr[0].guess == p.guess * 3.0 and arr[1].guess == p.guess * 2.0)
        # extended-precision NumPy scalars on the left (F75)
        flags[nm + ".longdouble1_mul"] = _no_raise(lambda: (np.longdouble(1) * p) is p)
        flags[nm + ".longdouble0_add"] = _no_raise(lambda: (np.longdouble(0) + p) is p)
        if nm != "C":
            flags[nm + ".longdouble2_mul_guess"] = _no_raise(lambda: float((np.longdouble(2) * p).guess) == 2 * p.guess)
            # unsigned NumPy integers are numbers like any other (F77); dividing by a NumPy zero is dividing by zero (F81)
            flags[nm + ".sub_most_negative_int8"] = _no_raise(lambda: (p - np.int8(-128)).guess == p.guess + 128 and (p - np.int64(-2 ** 63)).guess == p.guess + 2.0 ** 63)     # (F142)
            flags[nm + ".sub_uint8"] = _no_raise(lambda: (p - np.uint8(1)).guess == p.guess - 1 and (p - np.uint64(3)).guess == p.guess - 3)
        flags[nm + ".div_np_zero_raises"] = _raises((ZeroDivisionError, TypeError), lambda: p / np.float64(0)) and _raises((ZeroDivisionError, TypeError), lambda: p / np.int64(0))
        q = p.renamed("zz")
        flags[nm + ".renamed"] = bool(q.name == "zz" and q is not p and p.name != "zz" and type(q) is type(p))
    p = Uniform(1.0, 2.0)
    flags["ufunc_kwargs_raises"] = _raises(TypeError, lambda: np.add(p, 1.0, dtype=float))
    flags["ufunc_reduce_raises"] = _raises(TypeError, lambda: np.add.reduce(p))
    flags["base_prior_not_instantiable"] = _raises(NotImplementedError, lambda: __import__("holopy").core.prior.Prior())
    flags["transformed_needs_callable"] = _raises(TypeError, lambda: TransformedPrior(3, [p]))
    return {"resid": {}, "flags": {k: bool(v) for k, v in flags.items()}}


def _no_raise(f):
    try:
        return bool(f())
    except Exception:
        return False


def _run_bad(case):
    from holopy.core.prior import Uniform, Gaussian, BoundedGaussian
    from holopy.scattering.errors import ParameterSpecificationError as E
    rng = rng_for(*case["seed"])
    a = float(rng.normal() * loguniform(rng, 1e-6, 1e6))
    w = float(loguniform(rng, 1e-9, 1e6))
    flags = {}
    flags["uniform_lo_gt_hi"] = _raises(E, lambda: Uniform(a + w, a))
    flags["uniform_lo_eq_hi"] = _raises(E, lambda: Uniform(a, a))
    flags["uniform_inf_inf_reversed"] = _raises(E, lambda: Uniform(np.inf, -np.inf))
    flags["uniform_guess_below"] = _raises(E, lambda: Uniform(a, a + w, guess=a - w))
    flags["uniform_guess_above"] = _raises(E, lambda: Uniform(a, a + w, guess=a + 2 * w))
    flags["gaussian_sd_zero"] = _raises(E, lambda: Gaussian(a, 0))
    flags["gaussian_sd_negative"] = _raises(E, lambda: Gaussian(a, -w))
    flags["bg_sd_negative"] = _raises(E, lambda: BoundedGaussian(a, -w, a - 1, a + 1))
    flags["bg_mu_below"] = _raises(E, lambda: BoundedGaussian(a - w, w, a, a + w))
    flags["bg_mu_above"] = _raises(E, lambda: BoundedGaussian(a + 2 * w, w, a, a + w))
    flags["bg_lo_eq_hi"] = _raises(E, lambda: BoundedGaussian(a, w, a, a))
    nan, inf = float("nan"), float("inf")
    flags["uniform_nan_lower"] = _raises(E, lambda: Uniform(nan, a))
    flags["uniform_nan_upper"] = _raises(E, lambda: Uniform(a, nan))
    flags["gaussian_sd_nan"] = _raises(E, lambda: Gaussian(a, nan))
    flags["gaussian_sd_inf"] = _raises(E, lambda: Gaussian(a, inf))
    flags["gaussian_mu_nan"] = _raises(E, lambda: Gaussian(nan, w))
    flags["gaussian_mu_inf"] = _raises(E, lambda: Gaussian(inf, w))
    flags["bg_sd_nan"] = _raises(E, lambda: BoundedGaussian(a, nan, a - 1, a + 1))
    flags["bg_nan_bounds"] = bool(_raises(E, lambda: BoundedGaussian(a, w, nan, nan)) and _raises(E, lambda: BoundedGaussian(a, w, nan, a + w))
                                  and _raises(E, lambda: BoundedGaussian(a, w, a - w, nan)))           # (F73)
    flags["uniform_nan_guess"] = _raises(E, lambda: Uniform(a, a + w, guess=nan))                          # (F80)
    # parameters that are not real numbers, a guess that is not finite
    flags["complex_parameters_rejected"] = bool(_raises(E, lambda: Gaussian(1j, w)) and _raises(E, lambda: Gaussian(np.complex128(a), w)) and _raises(E, lambda: Gaussian(a, np.complex128(w)))
                                                and _raises(E, lambda: Uniform(np.complex128(a), a + w)) and _raises(E, lambda: Uniform(a, a + w, guess=np.complex128(a)))
                                                and _raises(E, lambda: BoundedGaussian(np.complex128(a), w, a - w, a + w)))
    flags["infinite_guess_rejected"] = bool(_raises(E, lambda: Uniform(a, inf, guess=inf)) and _raises(E, lambda: Uniform(-inf, a, guess=-inf)))
    # a range check means the same for single-precision and double-precision numbers: what is built can be written out and read back
    f32 = np.float32(0.1)
    def _consistent(make):
        try:
            q = make()
        except E:
            return True
        try:
            type(q)(**{k: (v.item() if isinstance(v, np.generic) else v) for k, v in q._dict.items()})
            return True
        except E:
            return False
    flags["range_checks_same_in_single_and_double_precision"] = bool(_consistent(lambda: Uniform(f32, 1.0, guess=0.1)) and _consistent(lambda: Uniform(0.0, f32, guess=float(f32)))
                                                                     and _consistent(lambda: BoundedGaussian(0.1, 1.0, lower_bound=f32)) and _consistent(lambda: Uniform(0.0, 1.0, guess=f32)))
    from holopy.core.prior import ComplexPrior
    pu = Uniform(a, a + w)
    flags["complex_prior_parts_checked"] = bool(_raises(TypeError, lambda: ComplexPrior(pu, None)) and _raises(TypeError, lambda: ComplexPrior("a", pu)) and _raises(TypeError, lambda: ComplexPrior(pu, [1.0]))
                                                and _no_raise(lambda: ComplexPrior(pu, 0.5).guess == complex(pu.guess, 0.5)) and _no_raise(lambda: ComplexPrior(np.float32(1.5), pu) is not None)
                                                and _no_raise(lambda: ComplexPrior(np.array(1.5), pu).guess == complex(1.5, pu.guess)))
    # the default guess lies in the support whatever the magnitude of finite bounds (F79)
    big = Uniform(1e308, 1.7e308); neg = Uniform(-1.7e308, -1e308)
    flags["default_guess_in_support_at_huge_bounds"] = bool(1e308 <= big.guess <= 1.7e308 and -1.7e308 <= neg.guess <= -1e308)
    # the log-density is the logarithm of the density for plain Python numbers at any distance and width (F78)
    def _ln_ok(mu, sd, x):
        g = Gaussian(mu, sd)
        try:
            lp = float(g.lnprob(x))
        except Exception:
            return False
        z = (x - mu) / sd
        ref = -0.5 * z * z - math.log(sd) - 0.5 * math.log(2 * math.pi) if abs(z) < 1e150 else -inf
        return (lp == ref) if math.isinf(ref) else abs(lp - ref) <= 1e-12 * max(1.0, abs(ref))
    flags["gaussian_lnprob_never_raises"] = bool(_ln_ok(0., 1., 1e160) and _ln_ok(0., 1e-170, 0.) and _ln_ok(0., 1e160, 0.) and _ln_ok(1e200, 1., 0)
                                                 and _ln_ok(a, w, a + 3 * w) and _ln_ok(0., 1e-170, 1e-170))
    # valid edge constructions are accepted
    ok = True
    try:
        u = Uniform(a, a + w, guess=a); u2 = Uniform(a, a + w, guess=a + w)
        ok &= (u.guess == a and u2.guess == a + w)
        BoundedGaussian(a, w, a, a + w); BoundedGaussian(a + w, w, a, a + w)
        Uniform(-np.inf, a); Uniform(a, np.inf); Uniform(-np.inf, np.inf)
    except Exception:
        ok = False
    flags["valid_edges_accepted"] = bool(ok)
    return {"resid": {}, "flags": flags}


# ------------------------------------------------------------------ oracle (parent)

KS_CRIT = math.sqrt(math.log(2 / 1e-12) / 2)      # D*sqrt(n) at alpha = 1e-12
TOL = {"lnprob_vs_textbook": 1e-12, "exp_lnprob_vs_prob": 1e-12, "integral": 1e-8, "unscale_scale": 4.5e-16,
       "complex_lnprob_sum": 1e-12, "ks_D_sqrtn": KS_CRIT, "mean_z": 7.2, "sd_z": 7.2 * 1.5,
       "guess": 1e-13, "sample": 1e-12}


def judge(case, obs):
    out = []
    for k, v in obs.get("resid", {}).items():
        base = k.split("@")[0]
        tol = TOL[base]
        if case["kind"] == "expr" and base in ("guess", "sample"):
            # an ill-conditioned expression bounds what any evaluation order can reproduce (measured on the reference itself in the child)
            tol = max(tol, 8 * (obs.get("cond") or {}).get(base, 0.0))
        if not v <= tol:
            out.append({"mech": "%s.%s" % (case["kind"], base), "detail": "%s=%.4g > %.3g ; case=%s" % (k, v, TOL[base], {x: case[x] for x in case if x != "seed"})})
    for k, v in obs.get("flags", {}).items():
        if not v:
            nm = k.split("@")
            mech = "%s.%s" % (case["kind"], nm[0])
            if case["kind"] in ("samp",) and len(nm) > 1:
                mech += ".%s.size_%s" % (case["spec"]["t"], nm[1])
            out.append({"mech": mech, "detail": "flag %s false ; case=%s" % (k, {x: case[x] for x in case if x != "seed"})})
    return out


def judge_exception(case, o):
    ex = o["exception"]
    mech = "exception.%s.%s" % (case["kind"], ex["type"])
    if case["kind"] == "samp":
        mech += "." + case["spec"]["t"]
    return [{"mech": mech, "detail": ex["tb"][-900:]}]


def nontrivial(case, obs):
    return bool(obs.get("resid") or obs.get("flags")) and not obs.get("skipped")
