"""C12 Posterior = prior x Gaussian likelihood, exactly as documented."""
import math

import numpy as np

from ..util import rng_for, fnum, loguniform, relmax

LEVEL_TEXT = ("Runtime monitoring with a recomputation oracle: generated AlphaModel / ExactModel instances (sphere and "
              "two-sphere scatterers, scaling prior or fixed, optics taken from the model, from the data or mixed incl. prior-"
              "valued medium index, noise from the model / a prior / the data / per channel / absent) are evaluated at "
              "parameter vectors inside the support, exactly on the bounds, outside, giving an invalid scatterer and "
              "violating an overlap constraint, on full images, pixel subsets and with lnposterior(pixels=k); the oracle "
              "recomputes log-prior as the sum of the priors' log-densities, the forward hologram with a separate public "
              "calc_holo call on an independently constructed scatterer with the substituted values, and the Gaussian "
              "log-likelihood from it; a counting calc_func / the calc_holo monitor shows that no hologram is computed when "
              "the prior is -inf; LnpostWrapper.evaluate is compared with +-lnposterior.")
LEVEL_NOTE = "Trusted: the checker's Gaussian log-density formula and the public calc_holo (itself the subject of C01)."
TECHNIQUE = "runtime monitoring: recomputation oracle from public pieces + call-counting monitor (no forward calculation when the prior excludes the point)"
RULE = ("post: model kinds {alpha, exact} x optics source {model, data, mixed} x noise source {model scalar, model prior, data, "
        "none+uniform, none+gaussian (must raise), per-channel data} x vector kinds {inside, on lower/upper bound, outside, "
        "negative radius, overlap constraint} x data {image, subset, pixels=k}; shapes: spheroid / cylinder sizes negative inside the support, overlap constraints on layered spheres; per-channel model noise as dict (either key order) or list; per-channel (dictionary) radii / thicknesses negative in one channel. non-trivial = lnposterior finite or -inf "
        "decided with >=1 prior; distinct by rounded case JSON")
ASSUMPTIONS = ["the log-likelihood normalisation is the documented -N/2 log(2 pi) - N mean(log sigma) - chi^2/2"]
MIN_NONTRIVIAL = 20
REQUIRED_COUNTERS = ["calc_holo"]
CASE_TIMEOUT = 600


def cases(tier, seed):
    out = []
    rng = rng_for(seed, "c12")
    n = 160 if tier == "quick" else 4000
    vkinds = ["inside", "inside", "bound_lo", "bound_hi", "outside", "neg_radius", "constraint", "inside", "nan"]
    noise = ["model", "model_prior", "data", "none_uniform", "none_gaussian", "channel_data", "both", "both_prior", "channel_model"]
    for i in range(n):
        c = {"id": "post-%d" % i, "kind": "post", "model": ["alpha", "exact", "alpha_fixed"][i % 3], "optics_src": ["model", "data", "mixed"][(i // 3) % 3],
             "noise_src": noise[(i // 2) % len(noise)], "vkind": vkinds[(i // 5) % len(vkinds)], "data_form": ["image", "subset", "pixels", "subset_pixels"][(i // 7) % 4],
             "two": bool(i % 4 == 3), "shape": [int(rng.integers(4, 9)), int(rng.integers(4, 9))], "seed": [seed, "post", i]}
        if c["vkind"] == "constraint":
            c["two"] = True
        # a fixed far-away sphere listed BETWEEN the two fitted ones: the constrained pair is then not adjacent in the list
        c["mid"] = bool(c["two"] and ((i // 8) % 2 or (c["vkind"] == "constraint" and i % 2)))
        c["big"] = bool(c["mid"] and i % 3 != 2)
        # explicit ties: the three radii of the big model are tied after construction (the far sphere's other parameters then lie
        # between the second and the last tied parameter), names listed in either order
        c["tie3"] = bool(c["big"] and c["vkind"] != "neg_radius" and (c["vkind"] != "constraint" or i % 2 == 0))
        c["tie_reversed"] = bool(i % 5 == 0)
        if c["noise_src"] in ("channel_data", "channel_model"):
            c["optics_src"] = "data"; c["data_form"] = "image"
        out.append(c)
    # other shapes and layered members: a size that makes no sense (negative semi-axis, diameter, height) inside its prior's support is an
    # invalid scatterer -> log-prior -inf and no hologram; an overlap constraint on layered spheres is a fraction of the OUTER diameter
    for i in range(12 if tier == "quick" else 300):
        out.append({"id": "shape-%d" % i, "kind": "shapes", "what": ["spheroid", "cylinder_d", "cylinder_h", "layered_overlap", "layered_overlap_mixed", "spheroid_z", "channel_radius", "channel_thickness"][i % 8],
                    "vkind": "shape", "noise_src": "model", "optics_src": "model", "model": "exact", "data_form": "image", "two": False, "seed": [seed, "shape", i]})
    return out


def _mid(case, val_of, nmed=None):
    """(index, radius, centre) of the far-away middle sphere: fixed numbers, or the substituted parameter values"""
    if case.get("big"):
        return (val_of("nm"), val_of("rm"), (val_of("xm"), val_of("ym"), val_of("zm")))
    return (1.55 * (nmed or 1.33) / 1.33, 0.3, (8.0, 0.7, 6.0))


# ------------------------------------------------------------------ child

_COUNT = [0]     # kept outside the callable so that the model object itself stays unchanged


class _Counter:
    @property
    def n(self):
        return _COUNT[0]

    def __call__(self, *a, **k):
        from holopy.scattering import calc_holo
        _COUNT[0] += 1
        return calc_holo(*a, **k)


def _run_shapes(case):
    from holopy.core.prior import Uniform
    from holopy.core.metadata import detector_grid, update_metadata
    from holopy.inference import ExactModel
    from holopy.inference.model import LimitOverlaps
    from holopy.scattering import calc_holo, Sphere, Spheres, Spheroid, Cylinder
    from holopy.scattering.theory import Mie, Tmatrix
    rng = rng_for(*case["seed"])
    what = case["what"]
    flags, resid = {}, {}
    det = detector_grid((4, 5), 0.3)
    counter = _Counter()
    kw = dict(noise_sd=0.1, medium_index=1.33, illum_wavelen=0.66, illum_polarization=(1, 0))
    if what.startswith("layered_overlap"):
        # two layered spheres side by side; outer radii R0, R1; cores much smaller
        R0, R1 = float(rng.uniform(0.4, 0.7)), float(rng.uniform(0.4, 0.7))
        frac = float(rng.uniform(0.05, 0.3))
        allowed = 2 * min(R0, R1) * frac
        px = Uniform(0.0, 3.0)
        lay0 = (0.3 * R0, R0) if what == "layered_overlap" else (0.2 * R0, 0.6 * R0, R0)
        lay1 = (0.25 * R1, R1)
        n0 = (1.5, 1.45) if len(lay0) == 2 else (1.5, 1.47, 1.45)
        sc = Spheres([Sphere(n=n0, r=lay0, center=[0.0, 1.0, 6.0]), Sphere(n=(1.55, 1.4), r=lay1, center=[px, 1.0, 6.0])], warn=False)
        model = ExactModel(sc, calc_func=counter, theory=Mie, constraints=[LimitOverlaps(frac)], **kw)
        data = update_metadata(calc_holo(det, Sphere(n=1.5, r=0.5, center=(1, 1, 6)), 1.33, 0.66, (1, 0)), noise_sd=0.1)
        for tag, ov in (("allowed", 0.8 * allowed), ("touching", 0.0), ("apart", -0.3), ("excluded", 1.25 * allowed)):
            x = R0 + R1 - ov
            n_before = counter.n
            lp = model.lnprior([x])
            post = model.lnposterior([x], data)
            want = px.lnprob(x)
            if tag == "excluded":
                flags["overlap_beyond_fraction_of_outer_diameter_excluded"] = bool(lp == -np.inf and post == -np.inf)
                flags["no_hologram_when_excluded"] = bool(counter.n == n_before)
            else:
                flags["overlap_within_fraction_of_outer_diameter_allowed@" + tag] = bool(lp == want and np.isfinite(post))
        return {"resid": resid, "flags": flags, "nparams": 1, "post": None}
    if what in ("channel_radius", "channel_thickness"):
        # sizes given per illumination channel: a negative value in ONE channel is an invalid scatterer like any other
        from holopy.core.prior import Gaussian
        from holopy.scattering.scatterer import LayeredSphere
        labs = ["red", "green"]
        pri = {l: Gaussian(0.5 + 0.01 * k_ + float(rng.uniform(0, 0.01)), 0.4) for k_, l in enumerate(labs)}
        if what == "channel_radius":
            sc = Sphere(n=1.5, r=dict(pri), center=[1.0, 1.0, 7.0])
        else:
            sc = LayeredSphere(n=[1.5, 1.45], t={l: [0.3, pri[l]] for l in labs}, center=[1.0, 1.0, 7.0])
        detc = detector_grid((4, 5), 0.3, extra_dims={"illumination": labs})
        kwc = dict(noise_sd=0.1, medium_index=1.33, illum_wavelen={"red": 0.66, "green": 0.52}, illum_polarization=(1, 0))
        model = ExactModel(sc, calc_func=counter, theory=Mie, **kwc)
        data = update_metadata(calc_holo(detc, Sphere(n=1.5, r=0.5, center=(1, 1, 7)), 1.33, {"red": 0.66, "green": 0.52}, (1, 0)), noise_sd=0.1)
        plist = list(model._parameters)
        good_v = [0.45 if p is pri["red"] or p == pri["red"] else 0.55 for p in plist]
        bad_v = [0.45 if p == pri["red"] else -0.2 for p in plist]
        n0_ = counter.n
        lp_bad = model.lnprior(bad_v)
        post_bad = model.lnposterior(bad_v, data)
        flags["negative_size_inside_support_has_lnprior_minus_inf"] = bool(lp_bad == -np.inf and post_bad == -np.inf)
        flags["no_hologram_for_invalid_scatterer"] = bool(counter.n == n0_)
        lp_good = model.lnprior(good_v)
        resid["lnprior"] = fnum(abs(lp_good - sum(p.lnprob(v) for p, v in zip(plist, good_v))))
        flags["valid_size_is_evaluated"] = bool(np.isfinite(model.lnposterior(good_v, data)) and counter.n == n0_ + 1)
        return {"resid": resid, "flags": flags, "nparams": len(plist), "post": None}
    lo = -float(rng.uniform(0.2, 1.0))
    pr = Uniform(lo, 1.0)
    good = float(rng.uniform(0.25, 0.6))
    bad = float(rng.uniform(lo, -0.01))
    other = float(rng.uniform(0.3, 0.6))
    ctr = [1.0, 1.0, 7.0]
    if what == "spheroid":
        sc = Spheroid(n=1.5, r=(pr, other), rotation=(0.0, 0.3, 0.0), center=ctr)
    elif what == "spheroid_z":
        sc = Spheroid(n=1.5, r=(other, pr), rotation=(0.0, 0.3, 0.0), center=ctr)
    elif what == "cylinder_d":
        sc = Cylinder(n=1.5, d=pr, h=other, rotation=(0.0, 0.3, 0.0), center=ctr)
    else:
        sc = Cylinder(n=1.5, d=other, h=pr, rotation=(0.0, 0.3, 0.0), center=ctr)
    model = ExactModel(sc, calc_func=counter, theory=Tmatrix, **kw)
    data = update_metadata(calc_holo(det, Sphere(n=1.5, r=0.5, center=(1, 1, 7)), 1.33, 0.66, (1, 0)), noise_sd=0.1)
    n0_ = counter.n
    lp_bad = model.lnprior([bad])
    post_bad = model.lnposterior([bad], data)
    flags["negative_size_inside_support_has_lnprior_minus_inf"] = bool(lp_bad == -np.inf and post_bad == -np.inf)
    flags["no_hologram_for_invalid_scatterer"] = bool(counter.n == n0_)
    lp_good = model.lnprior([good])
    resid["lnprior"] = fnum(abs(lp_good - pr.lnprob(good)))
    post_good = model.lnposterior([good], data)
    flags["valid_size_is_evaluated"] = bool(np.isfinite(post_good) and counter.n == n0_ + 1)
    return {"resid": resid, "flags": flags, "nparams": 1, "post": None, "forward_calls_when_excluded": counter.n - n0_ - 1}


def run_case(case):
    if case.get("kind") == "shapes":
        return _run_shapes(case)
    import holopy as hp
    import xarray as xr
    from holopy.core.prior import Uniform, Gaussian
    from holopy.core.metadata import update_metadata, make_subset_data, detector_grid
    from holopy.core.utils import LnpostWrapper
    from holopy.inference import AlphaModel, ExactModel
    from holopy.inference.model import LimitOverlaps
    from holopy.scattering import calc_holo, Sphere, Spheres
    from holopy.scattering.errors import MissingParameter
    from holopy.scattering.theory import Mie
    from vf import monitors
    from vf.monitors import digest
    rng = rng_for(*case["seed"])
    nmed, wl, pol = float(rng.uniform(1.2, 1.4)), float(rng.uniform(0.5, 0.7)), (1.0, 0.0)
    chan = case["noise_src"] in ("channel_data", "channel_model")
    labs = ["red", "green"]
    # ---- priors and truth
    use_gauss = case["noise_src"] == "none_gaussian" or case["vkind"] == "neg_radius" or rng.random() < 0.3
    j = lambda: float(rng.uniform(0, 0.01))      # jitter: every prior is unique, so a parameter identifies its prior
    pri = {"n": Uniform(1.45 + j(), 1.75 + j()), "r": Gaussian(0.5 + j(), 0.2) if use_gauss else Uniform(0.3 + j(), 0.8 + j()),
           "x": Uniform(0.2 + j(), 1.2 + j()), "y": Gaussian(0.7 + j(), 0.3) if (use_gauss and case["noise_src"] != "none_uniform") else Uniform(0.2 + j(), 1.2 + j()),
           "z": Uniform(4.0 + j(), 9.0 + j())}
    if case["noise_src"] == "none_uniform":
        pri["r"] = Uniform(0.3 + j(), 0.8 + j())
    if case["vkind"] == "neg_radius":
        pri["r"] = Gaussian(0.5 + j(), 0.2)
    s1 = Sphere(n=pri["n"], r=pri["r"], center=[pri["x"], pri["y"], pri["z"]])
    if case["two"]:
        pri["r2"] = Uniform(0.2 + j(), 0.6 + j())
        pri["x2"] = Uniform(1.0 + j(), 3.0 + j())
        members = [s1, Sphere(n=1.6 * nmed / 1.33, r=pri["r2"], center=[pri["x2"], 0.7, 6.0])]
        if case.get("mid") and case.get("big"):
            # every site of the far sphere is a parameter too: the model then has more than ten parameters
            pri["nm"] = Uniform(1.5 * nmed / 1.33 + j(), 1.6 * nmed / 1.33 + j()); pri["rm"] = Uniform(0.25 + j(), 0.35 + j())
            pri["xm"] = Uniform(7.8 + j(), 8.2 + j()); pri["ym"] = Uniform(0.5 + j(), 0.9 + j()); pri["zm"] = Uniform(5.8 + j(), 6.2 + j())
            members.insert(1, Sphere(n=pri["nm"], r=pri["rm"], center=[pri["xm"], pri["ym"], pri["zm"]]))
        elif case.get("mid"):
            members.insert(1, Sphere(n=1.55 * nmed / 1.33, r=0.3, center=[8.0, 0.7, 6.0]))
        if case.get("tie3"):
            # only equal priors can be tied: the other two radii get their own, equal copies of the first sphere's radius prior
            import copy
            pri["rm"], pri["r2"] = copy.deepcopy(pri["r"]), copy.deepcopy(pri["r"])
            members[1] = Sphere(n=pri["nm"], r=pri["rm"], center=[pri["xm"], pri["ym"], pri["zm"]])
            members[2] = Sphere(n=1.6 * nmed / 1.33, r=pri["r2"], center=[pri["x2"], 0.7, 6.0])
        scat = Spheres(members, warn=False)
    else:
        scat = s1
    kw = {}
    if case["optics_src"] == "model":
        kw.update(medium_index=nmed, illum_wavelen=wl, illum_polarization=pol)
    elif case["optics_src"] == "mixed":
        pri["nmed"] = Uniform(1.1 + j(), 1.5 + j())
        kw.update(medium_index=pri["nmed"], illum_polarization=pol)      # wavelength from the data
    sig_model = None
    if case["noise_src"] == "model":
        sig_model = float(rng.uniform(0.02, 0.3)); kw["noise_sd"] = sig_model
    elif case["noise_src"] == "model_prior":
        pri["sigma"] = Uniform(0.01 + j(), 0.5 + j()); kw["noise_sd"] = pri["sigma"]
    elif case["noise_src"] == "both":          # the model's noise level takes precedence over the data's
        sig_model = float(rng.uniform(0.02, 0.3)); kw["noise_sd"] = sig_model
    elif case["noise_src"] == "both_prior":
        pri["sigma"] = Uniform(0.01 + j(), 0.5 + j()); kw["noise_sd"] = pri["sigma"]
    elif case["noise_src"] == "channel_model":
        # per-channel noise given to the MODEL; the dictionary is written in either key order (sorted or not, same or other order than the data's channels)
        kw["noise_sd"] = {"green": 0.12, "red": 0.05} if rng.random() < 0.4 else {"red": 0.05, "green": 0.12}
        if rng.random() < 0.3:
            kw["noise_sd"] = [0.05, 0.12]        # a plain list: one value per channel, in the order of the data's channels (red, green)
    constraints = [LimitOverlaps(0.1)] if case["two"] else []
    counter = _Counter()
    if case["model"] == "alpha":
        pri["alpha"] = Uniform(0.5 + j(), 1.0 + j())
        model = AlphaModel(scat, alpha=pri["alpha"], theory=Mie, constraints=constraints, **kw)
    elif case["model"] == "alpha_fixed":
        model = AlphaModel(scat, alpha=0.85, theory=Mie, constraints=constraints, **kw)
    else:
        model = ExactModel(scat, calc_func=counter, theory=Mie, constraints=constraints, **kw)
    tie_groups = []
    if case.get("tie3"):
        nm0, pl0 = list(model.parameters.keys()), list(model.parameters.values())
        grp = ["r", "rm", "r2"]
        tied_names = ["0:r", "1:r", "2:r"]
        model.add_tie(tied_names[::-1] if case.get("tie_reversed") else tied_names)
        tie_groups.append(grp)
    names = list(model.parameters.keys())
    plist = list(model.parameters.values())
    # ---- parameter vector
    def inside(p):
        if isinstance(p, Uniform):
            return float(rng.uniform(p.lower_bound, p.upper_bound))
        return float(p.mu + p.sd * rng.uniform(-1, 1))
    vals = {nm: inside(p) for nm, p in zip(names, plist)}
    vk = case["vkind"]
    uni = [nm for nm, p in zip(names, plist) if isinstance(p, Uniform)]
    if vk == "bound_lo":
        nm = uni[int(rng.integers(0, len(uni)))]; vals[nm] = model.parameters[nm].lower_bound
    elif vk == "bound_hi":
        nm = uni[int(rng.integers(0, len(uni)))]; vals[nm] = model.parameters[nm].upper_bound
    elif vk == "outside":
        nm = uni[int(rng.integers(0, len(uni)))]
        p = model.parameters[nm]
        vals[nm] = float(np.nextafter(p.upper_bound, np.inf)) if rng.random() < 0.5 else p.lower_bound - float(rng.uniform(1e-9, 1.0))
    elif vk == "nan":
        nm = names[int(rng.integers(0, len(names)))]; vals[nm] = float("nan")      # not a number: outside every support (any prior class)
    elif vk == "neg_radius":
        rn = [nm for nm in names if nm.endswith("r") and isinstance(model.parameters[nm], Gaussian)][0]
        vals[rn] = -abs(vals[rn]) - 0.01
    elif vk == "constraint":
        # second sphere pushed into the first: overlap far beyond 10 percent of the smaller diameter
        x2name = [nm for nm, q in zip(names, plist) if type(q) is type(pri["x2"]) and q.renamed(None) == pri["x2"].renamed(None)][0]
        # both x values stay INSIDE their priors' supports, so that only the constraint can exclude the point
        vals[x2name] = pri["x2"].lower_bound + 0.05
        keep = {x2name}
        if "xm" in pri:
            keep |= {nm for nm, q in zip(names, plist) if type(q) is type(pri["xm"]) and q.renamed(None) == pri["xm"].renamed(None)}
            for key_, v_ in (("ym", None), ("zm", None)):
                keep |= {nm for nm, q in zip(names, plist) if type(q) is type(pri[key_]) and q.renamed(None) == pri[key_].renamed(None)}
        for nm in names:
            if nm.endswith("center.0") and nm not in keep:
                vals[nm] = pri["x"].upper_bound - 0.02
            if nm.endswith("center.1") and nm not in keep:
                vals[nm] = 0.7
            if nm.endswith("center.2") and nm not in keep:
                vals[nm] = 6.0
    vec = [vals[nm] for nm in names]
    # ---- independent reconstruction of the physical scatterer / optics from the values (by parameter *name*)
    def val_of(key, default=None):
        """value of the prior object `pri[key]`: find its parameter by identity-free means: bounds are unique per prior"""
        keys = next((g for g in tie_groups if key in g), [key])      # tied priors share the one parameter that survives the tie
        for nm, q in zip(names, plist):
            if any(type(q) is type(pri[k]) and q.renamed(None) == pri[k].renamed(None) for k in keys):
                return vals[nm]
        raise KeyError(key)
    invalid = val_of("r") < 0
    # (a value that is not a number is outside every prior's support: the reference sphere is then never used, and a library that
    # refuses nan centres or radii outright must not stop the harness here)
    has_nan = any(isinstance(v, float) and v != v for v in vals.values())
    e1 = None if invalid or has_nan else Sphere(n=val_of("n"), r=val_of("r"), center=(val_of("x"), val_of("y"), val_of("z")))
    if case["two"]:
        invalid = invalid or val_of("r2") < 0
        e2 = None if val_of("r2") < 0 or has_nan else Sphere(n=1.6 * nmed / 1.33, r=val_of("r2"), center=(val_of("x2"), 0.7, 6.0))
    alpha_v = val_of("alpha") if case["model"] == "alpha" else (0.85 if case["model"] == "alpha_fixed" else 1.0)
    nmed_v = val_of("nmed") if case["optics_src"] == "mixed" else nmed
    # ---- data
    nx, ny = case["shape"]
    if chan:
        det = detector_grid((nx, ny), 0.25, extra_dims={"illumination": labs})
        wl_c = {"red": wl, "green": wl * 0.8}; pol_c = {"red": (1.0, 0.0), "green": (0.0, 1.0)}; sig_c = {"red": 0.05, "green": 0.12}
        det = update_metadata(det, nmed, wl_c, pol_c, sig_c if case["noise_src"] == "channel_data" else None)
        truth = Sphere(n=1.59, r=0.5, center=(0.7, 0.7, 6.5))
        data = calc_holo(det, truth, scaling=0.9)
    else:
        det = detector_grid((nx, ny), 0.25)
        truth = Sphere(n=1.59, r=0.5, center=(0.7, 0.7, 6.5))
        data = calc_holo(det, truth, nmed, wl, pol, scaling=0.9)
    data = data + 0.03 * rng.normal(size=data.shape)
    attrs = {}
    sig_data = None
    if case["optics_src"] in ("data",) and not chan:
        attrs.update(medium_index=nmed, illum_wavelen=wl, illum_polarization=pol)
    if case["optics_src"] == "mixed":
        attrs.update(illum_wavelen=wl)
    if case["noise_src"] in ("data", "both", "both_prior"):
        sig_data = float(rng.uniform(0.02, 0.3)) * (3.0 if case["noise_src"] != "data" else 1.0); attrs["noise_sd"] = sig_data
    if not chan:
        data = update_metadata(data.copy(), **attrs) if attrs else data
        if case["optics_src"] == "model" or True:
            # drop optics that the model is supposed to supply, so that a wrong precedence is visible
            for k in ("medium_index", "illum_wavelen", "illum_polarization"):
                if k not in attrs:
                    data.attrs[k] = None
            if "noise_sd" not in attrs:
                data.attrs["noise_sd"] = None
    if case["data_form"] in ("subset", "subset_pixels"):
        data = make_subset_data(data, pixels=max(2, data.size // 3), seed=int(rng.integers(0, 10 ** 6)))
    d_data = digest(data)
    d_model = digest(model)
    # ---- expectations
    # textbook log-densities, written out here (closed support for the uniform prior) rather than asked of the prior objects
    def _lnp(p, v):
        if isinstance(p, Uniform):
            return -math.log(p.upper_bound - p.lower_bound) if p.lower_bound <= v <= p.upper_bound else -np.inf
        if v != v:
            return -np.inf       # not a number: outside the support of every prior, the Gaussian included
        return -0.5 * ((v - p.mu) / p.sd) ** 2 - math.log(p.sd * math.sqrt(2 * math.pi))
    lp_exp = sum(_lnp(p, v) for p, v in zip(plist, vec))
    if invalid:
        lp_exp = -np.inf
    if case["two"] and not invalid and not has_nan:
        # overlap constraint recomputed here from centres and radii (every pair, not only list neighbours)
        mem = [(e1.r, e1.center), (e2.r, e2.center)] + ([_mid(case, val_of)[1:]] if case.get("mid") else [])
        worst = max(mem[a][0] + mem[b][0] - float(np.linalg.norm(np.asarray(mem[a][1], float) - np.asarray(mem[b][1], float)))
                    for a in range(len(mem)) for b in range(a + 1, len(mem)))
        if max(worst, 0.0) > 0.1 * 2 * min(m[0] for m in mem):
            lp_exp = -np.inf
    flags, resid = {}, {}
    lp = model.lnprior(vec)
    lp_d = model.lnprior(dict(vals))
    flags["lnprior_dict_equals_list"] = bool(lp == lp_d or (np.isneginf(lp) and np.isneginf(lp_d)))
    if np.isneginf(lp_exp):
        flags["lnprior_is_minus_inf"] = bool(np.isneginf(lp))
    else:
        resid["lnprior"] = fnum(abs(lp - lp_exp) / max(1.0, abs(lp_exp)))
    # sigma that applies
    expect_missing = False
    if case["noise_src"] in ("model", "both"):
        sig = sig_model
    elif case["noise_src"] in ("model_prior", "both_prior"):
        sig = val_of("sigma")
    elif case["noise_src"] == "data":
        sig = sig_data
    elif case["noise_src"] in ("channel_data", "channel_model"):
        sig = None
    elif case["noise_src"] in ("none_uniform",):
        sig = 1.0 if all(isinstance(p, Uniform) for p in plist) else None
        expect_missing = sig is None
    else:
        sig = None
        expect_missing = not all(isinstance(p, Uniform) for p in plist)
        if not expect_missing:
            sig = 1.0
    calls0 = monitors.COUNTERS.get("calc_holo", 0)
    c0 = counter.n
    pixels = max(2, data.size // 2) if case["data_form"] in ("pixels", "subset_pixels") else None
    npseed = int(rng.integers(0, 10 ** 6))
    out = {"vkind": vk}
    try:
        np.random.seed(npseed)
        post = model.lnposterior(vec, data, pixels) if pixels else model.lnposterior(vec, data)
        raised = None
    except MissingParameter as e:
        post, raised = None, "MissingParameter"
    calls = (monitors.COUNTERS.get("calc_holo", 0) - calls0)
    ccalls = counter.n - c0
    if np.isneginf(lp_exp):
        flags["posterior_minus_inf"] = bool(post is not None and np.isneginf(post))
        flags["no_forward_calculation_when_excluded"] = bool(calls == 0 and ccalls == 0)
        out["forward_calls_when_excluded"] = calls + ccalls
    elif expect_missing:
        flags["missing_noise_raises"] = bool(raised == "MissingParameter")
    else:
        flags["posterior_computed"] = bool(post is not None and np.isfinite(post))
        if post is not None and np.isfinite(post):
            # forward hologram from a separate public call
            d_eval = data
            if pixels:
                np.random.seed(npseed)
                d_eval = make_subset_data(data, pixels=pixels)
            es = e1
            if case["two"]:
                mm = [e1, e2]
                if case.get("mid"):
                    nm_, rm_, cm_ = _mid(case, val_of, nmed)
                    mm.insert(1, Sphere(n=nm_, r=rm_, center=cm_))
                es = Spheres(mm, warn=False)
            if chan:
                holo = calc_holo(d_eval, es, theory=Mie(), scaling=alpha_v)
                sigma = d_eval.attrs["noise_sd"]
                if case["noise_src"] == "channel_model":
                    import xarray as xr
                    sigma = xr.DataArray([{"red": 0.05, "green": 0.12}[l] for l in labs], dims="illumination", coords={"illumination": labs})
                r = ((holo - d_eval) / sigma).values
                N = d_eval.size
                ll_exp = -N / 2 * math.log(2 * math.pi) - N * float(np.mean(np.log(np.asarray(sigma.values)))) - 0.5 * float((r ** 2).sum())
            else:
                holo = calc_holo(d_eval, es, nmed_v, wl, pol, theory=Mie(), scaling=alpha_v)
                r = (holo.values - d_eval.values) / sig
                N = d_eval.size
                ll_exp = -N / 2 * math.log(2 * math.pi) - N * math.log(sig) - 0.5 * float((r ** 2).sum())
            if pixels:
                # the k-pixel subset is k DISTINCT pixels of the image; with k = all pixels it is the full-image posterior
                pos = set(zip(np.asarray(d_eval.x.values).ravel().tolist(), np.asarray(d_eval.y.values).ravel().tolist()))
                flags["subset_pixels_distinct"] = bool(len(pos) == pixels)
                np.random.seed(npseed + 1)
                p_all = model.lnposterior(vec, data, int(data.size))
                p_full = model.lnposterior(vec, data)
                resid["pixels_all_equals_full"] = fnum(abs(p_all - p_full) / max(1.0, abs(p_full)))
            ll = model.lnlike(vec, d_eval)
            resid["lnlike"] = fnum(abs(ll - ll_exp) / max(1.0, abs(ll_exp)))
            resid["lnposterior_is_sum"] = fnum(abs(post - (lp_exp + ll_exp)) / max(1.0, abs(lp_exp + ll_exp)))
            fw = model.forward(vec, d_eval)
            resid["forward_equals_calc_holo"] = relmax(fw.transpose(*holo.dims).values, holo.values)
            fwd = model.forward(dict(vals), d_eval)
            flags["forward_dict_equals_list"] = bool(np.array_equal(fwd.values, fw.values))
            if not pixels:
                w = LnpostWrapper(model, data)
                wm = LnpostWrapper(model, data, None, True)
                flags["wrapper_plus"] = bool(w.evaluate(vec) == post)
                flags["wrapper_minus"] = bool(wm.evaluate(vec) == -post)
            out["forward_calls"] = calls + ccalls
    flags["data_untouched"] = bool(digest(data) == d_data)
    flags["model_untouched"] = bool(digest(model) == d_model)
    # every model has its own list of constraints: giving one to a model built without any does not give it to the next one (F137)
    mk = lambda: AlphaModel(Sphere(n=1.5, r=Uniform(0.3, 0.8), center=[1.0, 1.0, 6.0]), alpha=0.8, noise_sd=0.1, medium_index=1.33, illum_wavelen=0.66, illum_polarization=(1, 0))
    mA = mk()
    mA.constraints.append(LimitOverlaps(0.0))
    flags["constraints_not_shared_between_models"] = bool(len(mk().constraints) == 0)
    del mA.constraints[:]
    out.update({"resid": resid, "flags": flags, "nparams": len(names), "post": None if post is None else fnum(post)})
    return out


# ------------------------------------------------------------------ oracle

TOL = {"pixels_all_equals_full": 1e-11, "lnprior": 1e-12, "lnlike": 1e-10, "lnposterior_is_sum": 1e-10, "forward_equals_calc_holo": 1e-12}


def judge(case, obs):
    out = []
    desc = {k: case.get(k) for k in ("model", "optics_src", "noise_src", "vkind", "data_form", "two", "mid", "big")}
    for k, v in obs["resid"].items():
        if not v <= TOL[k]:
            out.append({"mech": "post.%s" % k, "detail": "%s=%.3e > %.0e; %s" % (k, v, TOL[k], desc)})
    for k, v in obs["flags"].items():
        if not v:
            out.append({"mech": "post.%s" % k, "detail": "flag false; %s %s" % (desc, {x: obs.get(x) for x in ("forward_calls_when_excluded", "post")})})
    return out


def judge_exception(case, o):
    ex = o["exception"]
    return [{"mech": "exception.%s.%s.%s" % (ex["type"], case["noise_src"], case["optics_src"]), "detail": ex["tb"][-900:] + " ;; %s" % {k: case[k] for k in ("model", "optics_src", "noise_src", "vkind", "data_form", "two")}}]


def nontrivial(case, obs):
    return obs.get("nparams", 0) >= 1


def evidence_extra(cases, obs):
    by = {}
    excl = 0
    for c in cases:
        o = obs.get(c["id"], {}).get("obs")
        if isinstance(o, dict):
            by[c["vkind"]] = by.get(c["vkind"], 0) + 1
            if "forward_calls_when_excluded" in o:
                excl += 1
    return {"vector_kinds": by, "cases_where_prior_excluded_the_point": excl}
