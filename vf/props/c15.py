"""C15 HoloPy objects survive save -> load unchanged."""
import inspect
import io
import math
import os
import shutil
import tempfile

import numpy as np

from ..util import rng_for, fnum, loguniform

NEEDS_FORTRAN = True
INSTALL_MONITORS = False
LEVEL_TEXT = ("Runtime monitoring of the real yaml save/load path: a grammar-based generator builds instances of every "
              "HoloPyObject class exported by holopy.scattering and holopy.inference (the class inventory is taken by "
              "introspection at run time and classes without a generator are reported) with random valid constructor "
              "arguments (floats incl. 1e+-300 and subnormals, ints, complex, numpy scalars, tuples, lists, 1-D arrays, "
              "explicit None, nested objects, priors of all kinds incl. operator- and ufunc-derived, models with ties, "
              "constraints and per-channel optics); each object goes through 1-3 save/load cycles via file path and "
              "stream, and the oracle compares class, every constructor argument (taken from the signature, "
              "independently of the library's own item iterator), text idempotence from the first cycle on, library "
              "equality, and for models the parameter names, ties and value-to-place mapping.")
LEVEL_NOTE = "Trusted: PyYAML; the checker's normalisation (tuple/array -> list, numpy scalar -> python scalar)."
TECHNIQUE = "runtime monitoring: generated objects through the real serializer, round-trip oracle over constructor arguments + text idempotence; model mapping re-checked with the C11 shadow oracle"
RULE = ("object kinds: 13 scatterer classes (incl. nested collections, CSG, rigid cluster), 5 prior kinds, 6 theories, 5 "
        "strategies, 2 model classes, constraint, uncertain value; argument flavours {python, numpy scalar, tuple, array, "
        "extreme magnitude, explicit None}; complex numbers with zero / negative-zero parts; scipy ufuncs, bound methods, labelled-array values, nested rigid clusters; targets {file, binary / text stream via serialize and via hp.save/hp.load, temporary files}. non-trivial = object has >=1 constructor argument set; distinct by rounded case JSON")
ASSUMPTIONS = ["library equality is checked for objects whose sequence arguments are all passed explicitly as lists (a tuple-valued *default*, e.g. rotation=(0, 0, 0), reloads as a list and is not counted against equality)",
               "DDA cannot be constructed here (adda missing) and Indicators/Scatterer hold Python functions; both are reported as not generated",
               "argument values are compared after normalising containers (tuple/array -> list) and numpy scalars -> Python scalars, as the property allows"]
MIN_NONTRIVIAL = 20

KINDS = ["Sphere", "SphereLayered", "LayeredSphere", "Spheres", "Scatterers", "Spheroid", "Cylinder", "Ellipsoid", "Capsule", "Bisphere",
         "JanusSphere_Uniform", "JanusSphere_Tapered", "RigidCluster", "Union", "Difference", "Intersection",
         "Uniform", "Gaussian", "BoundedGaussian", "ComplexPrior", "TransformedPrior", "UfuncPrior",
         "Mie", "Multisphere", "Tmatrix", "MieLens", "AberratedMieLens", "Lens",
         "NmpfitStrategy", "LeastSquaresScipyStrategy", "CmaStrategy", "EmceeStrategy", "TemperedStrategy",
         "AlphaModel", "ExactModel", "ModelTied", "ModelChannels", "LimitOverlaps", "UncertainValue", "SphereWithPriors",
         "SharedScalar", "SharedContainer", "SharedObject", "RigidClusterDefaults", "ModelTiedTheory", "ModelXarrayChannels",
         # untouched tuple defaults (F109), a tie that reaches outside the scatterer (F110), a complex prior with both parts fixed (F111),
         # a transformation that is a NumPy function but not a ufunc (F112)
         "EllipsoidDefaults", "ModelTieAlpha", "ModelFixedComplex", "NumpyFuncPrior",
         # a ufunc from outside NumPy, a bound method of a HoloPy object as transformation, a labelled-array value of a bare scatterer,
         # a rigid cluster as member of a collection inside a model
         "ScipyUfuncPrior", "BoundMethodPrior", "SphereXarrayValue", "ModelNestedRigid",
         # more than ten members (two-digit member numbers in the parameter names), priors on members 1 and 10+
         "ModelManyMembers"]


def cases(tier, seed):
    out = []
    n = 8 if tier == "quick" else 120
    k = 0
    for rep in range(n):
        for kind in KINDS:
            out.append({"id": "obj-%d" % k, "kind": "obj", "what": kind, "argstyle": ["python", "numpy", "tuple", "array", "extreme", "none"][(rep + k) % 6],
                        "cycles": 1 + (k % 3), "target": ["stream", "file", "textstream", "hp_textstream", "tempfile_binary", "tempfile_text"][(k // 3) % 6], "seed": [seed, "obj", k]})      # (textstream: F113)
            k += 1
    out.append({"id": "inventory", "kind": "inventory"})
    # explicit None for every constructor argument whose default is something else, class by class with parent
    # classes first, all in ONE interpreter (state kept on classes must not leak from a parent to its subclasses)
    for rep in range(2 if tier == "quick" else 6):
        out.append({"id": "noneprobe-%d" % rep, "kind": "none_probe", "order": ["parents_first", "children_first", "shuffled"][rep % 3], "seed": [seed, "np", rep],
                    "proc": "noneprobe-%d" % rep})      # a fresh interpreter each: nothing serialized before the probe sequence starts
    return out


# ------------------------------------------------------------------ child

def _num(rng, fl, lo=0.2, hi=2.0, integer=False):
    v = float(rng.uniform(lo, hi))
    if integer:
        v = int(rng.integers(2, 50))
        return {"numpy": np.int64(v), "array": np.int32(v)}.get(fl, v)
    if fl == "numpy":
        return [np.float64(v), np.float32(v)][int(rng.integers(0, 2))]
    if fl == "extreme":
        return [v * 1e300, v * 1e-300, 5e-324, v * 1e-12, v][int(rng.integers(0, 5))]
    return v


def _vec(rng, fl, n=3, lo=0.0, hi=5.0):
    v = [float(x) for x in rng.uniform(lo, hi, n)]
    if fl == "tuple":
        return tuple(v)
    if fl == "array":
        return np.array(v)
    if fl == "numpy":
        return [np.float64(x) for x in v]
    return v


_SPECIAL_COMPLEX = [1.5j, 2j, -2j, complex(0.0, 0.25), complex(-0.0, 1.0), complex(1.5, 0.0), complex(1.5, -0.0), complex(2, 1), complex(-1.5, -0.5),
                    complex(0.0, 1e-300), complex(1e22, 1e-7), complex(0.0, 0.0)]


def _index(rng, fl):
    v = float(rng.uniform(1.3, 1.8))
    r = rng.random()
    if r < 0.3:
        c = complex(v, float(rng.uniform(0.001, 0.2)))
        if rng.random() < 0.35:
            # complex numbers whose text form is special: a zero (or negative-zero) real or imaginary part, integral parts, negative parts
            c = _SPECIAL_COMPLEX[int(rng.integers(0, len(_SPECIAL_COMPLEX)))]
        return np.complex128(c) if fl in ("numpy", "array") else c
    return _num(rng, fl if fl != "extreme" else "python", 1.3, 1.8)


def _prior(rng, kind=None, named=None):
    from holopy.core.prior import Uniform, Gaussian, BoundedGaussian, ComplexPrior, TransformedPrior
    kind = kind or ["U", "G", "BG", "Uinf"][int(rng.integers(0, 4))]
    nm = named if named is not None else [None, "a", "my name", np.array(["radius"])[0], np.str_("n_p")][int(rng.integers(0, 5))]
    lo = float(rng.uniform(0.1, 1.0))
    if kind == "U":
        g = None if rng.random() < 0.5 else lo + 0.1
        return Uniform(lo, lo + float(rng.uniform(0.5, 2)), guess=g, name=nm)
    if kind == "Uinf":
        return Uniform(0, np.inf, guess=float(rng.uniform(0.5, 2)), name=nm)
    if kind == "G":
        return Gaussian(lo, float(rng.uniform(0.05, 0.5)), name=nm)
    return BoundedGaussian(lo + 0.5, 0.2, lo, np.inf if rng.random() < 0.5 else lo + 2.0, name=nm)


_REP = [0]      # repetition number of the case being built (set by run_case)


def _make(what, rng, fl):
    import holopy as hp
    from holopy.scattering import scatterer as S
    from holopy.scattering.scatterer import (Sphere, LayeredSphere, Spheres, Scatterers, Spheroid, Cylinder, Ellipsoid, Capsule, Bisphere,
                                             JanusSphere_Uniform, JanusSphere_Tapered, RigidCluster, Union, Difference, Intersection)
    from holopy.core.prior import Uniform, Gaussian, BoundedGaussian, ComplexPrior, TransformedPrior
    from holopy.scattering.theory import Mie, Multisphere, Tmatrix, MieLens, Lens
    from holopy.scattering.theory.mielens import AberratedMieLens
    from holopy.inference import NmpfitStrategy, LeastSquaresScipyStrategy, AlphaModel, ExactModel
    from holopy.inference.cmaes import CmaStrategy
    from holopy.inference.emcee import EmceeStrategy, TemperedStrategy
    from holopy.inference.model import LimitOverlaps
    from holopy.inference.result import UncertainValue
    none = fl == "none"
    N = lambda **k: _num(rng, fl, **k)
    V = lambda n=3, **k: _vec(rng, fl, n, **k)

    def sphere():
        return Sphere(n=_index(rng, fl), r=N(), center=None if (none and rng.random() < 0.5) else V())
    if what == "Sphere":
        return sphere()
    if what == "SphereLayered":
        L = int(rng.integers(2, 4))
        return Sphere(n=[_index(rng, "python") for _ in range(L)] if fl != "tuple" else tuple(_index(rng, "python") for _ in range(L)),
                      r=sorted(V(L, lo=0.1, hi=2.0)) if fl not in ("tuple", "array") else tuple(sorted(float(x) for x in rng.uniform(0.1, 2, L))), center=V())
    if what == "LayeredSphere":
        return LayeredSphere(n=(1.5, 1.4), t=V(2, lo=0.1, hi=1.0), center=V())
    if what == "Spheres":
        return Spheres([sphere() for _ in range(int(rng.integers(1, 4)))], warn=bool(rng.integers(0, 2)) if not none else False)
    if what == "Scatterers":
        return Scatterers([sphere(), Spheres([sphere()], warn=False), Spheroid(n=1.5, r=V(2, lo=0.2, hi=1), rotation=V(3, lo=0, hi=3), center=V())])
    if what == "Spheroid":
        return Spheroid(n=_index(rng, fl), r=V(2, lo=0.2, hi=1.0), rotation=V(3, lo=0, hi=3.0), center=None if none else V())
    if what == "Cylinder":
        return Cylinder(n=_index(rng, fl), h=N(), d=N(), center=V(), rotation=V(3, lo=0, hi=3.0))
    if what == "Ellipsoid":
        return Ellipsoid(n=_index(rng, fl), r=V(3, lo=0.2, hi=1.0), center=V(), rotation=V(3, lo=0, hi=3))
    if what == "Capsule":
        return Capsule(n=_index(rng, fl), h=N(), d=N(), center=V(), rotation=V(3, lo=0, hi=3))
    if what == "Bisphere":
        return Bisphere(n=_index(rng, fl), h=N(), d=N(), center=V(), rotation=V(3, lo=0, hi=3))
    if what == "JanusSphere_Uniform":
        return JanusSphere_Uniform(n=V(2, lo=1.3, hi=2.0), r=V(2, lo=0.3, hi=0.9), rotation=V(3, lo=0, hi=3), center=V())
    if what == "JanusSphere_Tapered":
        return JanusSphere_Tapered(n=V(2, lo=1.3, hi=2.0), r=V(2, lo=0.3, hi=0.6), rotation=V(3, lo=0, hi=3), center=V())
    if what == "SharedScalar":
        # ONE Python object used at several places of the saved object (what `n = np.float32(1.5); Sphere(n, ...), Sphere(n, ...)` does)
        mk = [lambda: np.float32(rng.uniform(1.2, 1.9)), lambda: np.float64(rng.uniform(1.2, 1.9)), lambda: np.int64(rng.integers(2, 5)),
              lambda: np.int32(rng.integers(2, 5)), lambda: float(rng.uniform(1.2, 1.9)), lambda: int(rng.integers(2, 5)),
              lambda: complex(rng.uniform(1.2, 1.9), rng.uniform(0.01, 0.2)), lambda: np.complex128(complex(rng.uniform(1.2, 1.9), rng.uniform(0.01, 0.2))),
              lambda: np.complex64(complex(1.5, 0.25)), lambda: _SPECIAL_COMPLEX[int(rng.integers(0, len(_SPECIAL_COMPLEX)))],
              lambda: np.complex128(_SPECIAL_COMPLEX[int(rng.integers(0, len(_SPECIAL_COMPLEX)))]), lambda: np.complex64(1.5j), lambda: np.float16(1.5), lambda: np.uint8(3)]
        v = mk[int(rng.integers(0, len(mk)))]()
        shape = int(rng.integers(0, 4))
        if shape == 0:
            return Spheres([Sphere(n=v, r=0.5, center=[0.0, 0.0, 1.0]), Sphere(n=v, r=0.25, center=[0.0, 0.0, 3.0])], warn=False)
        if shape == 1:
            return Sphere(n=v, r=v, center=[1.0, 2.0, 3.0]) if not np.iscomplexobj(v) else Sphere(n=[v, v], r=[0.5, 0.75], center=[1.0, 2.0, 3.0])
        if shape == 2:
            return Sphere(n=[v, 1.25, v], r=[0.5, 0.75, 1.0], center=[v.real, 2.0, v.real])
        return Scatterers([Sphere(n=v, r=0.5, center=[0.0, 0.0, 1.0]), Scatterers([Sphere(n=v, r=0.25, center=[0.0, 0.0, 3.0])])])
    if what == "SharedContainer":
        kind = int(rng.integers(0, 4))
        c = [tuple(float(x) for x in rng.uniform(0, 5, 3)), [float(x) for x in rng.uniform(0, 5, 3)], rng.uniform(0, 5, 3),
             (1, 2, 3)][kind]
        if rng.random() < 0.5:
            return Spheres([Sphere(n=1.5, r=0.5, center=c), Sphere(n=1.25, r=0.25, center=c)], warn=False)
        return Spheroid(n=1.5, r=(0.5, 0.75), rotation=c, center=c)
    if what == "SharedObject":
        kind = int(rng.integers(0, 3))
        if kind == 0:
            sp = sphere()
            return Scatterers([sp, sp])
        if kind == 1:
            pr = _prior(rng)
            return Sphere(n=pr, r=pr, center=[pr, 1.0, 2.0])
        th = Mie(bool(rng.integers(0, 2)), bool(rng.integers(0, 2)))
        return Lens(lens_angle=float(rng.uniform(0.2, 1.2)), theory=th)
    if what == "EllipsoidDefaults":
        return Ellipsoid(n=N(lo=1.3, hi=1.8), r=[float(v) for v in rng.uniform(0.3, 1.0, 3)], center=[float(v) for v in rng.normal(size=3)])
    if what == "NumpyFuncPrior":
        from holopy.core.prior import TransformedPrior
        f = [np.mean, np.sum, np.linalg.norm, np.max, np.min, np.prod][int(rng.integers(0, 6))]
        return TransformedPrior(f, [_prior(rng, "U"), _prior(rng, "G")])
    if what in ("ModelTieAlpha", "ModelFixedComplex"):
        from holopy.core.prior import ComplexPrior
        lo = float(rng.uniform(0.2, 0.6))
        if what == "ModelTieAlpha":
            m = AlphaModel(Sphere(n=1.59, r=Uniform(lo, lo + 0.4), center=[1.0, 2.0, _prior(rng, "U")]), alpha=Uniform(lo, lo + 0.4), noise_sd=0.1,
                           medium_index=1.33, illum_wavelen=0.66, illum_polarization=(1, 0), theory=Mie)
            m.add_tie(["r", "alpha"], new_name=[None, "shared value"][int(rng.integers(0, 2))])
            return m
        return AlphaModel(Sphere(n=ComplexPrior(1.5, float(rng.uniform(0.01, 0.2))), r=Uniform(lo, lo + 0.4), center=[1.0, 2.0, 3.0]), alpha=_prior(rng, "U"),
                          noise_sd=0.1, medium_index=1.33, illum_wavelen=0.66, illum_polarization=(1, 0), theory=Mie)
    if what == "RigidClusterDefaults":
        # default translation and rotation are the same constant tuple
        return RigidCluster(Spheres([sphere(), sphere()], warn=False))
    if what == "RigidCluster":
        return RigidCluster(Spheres([sphere(), sphere()], warn=False), translation=V(), rotation=V(3, lo=0, hi=3))
    if what in ("Union", "Difference", "Intersection"):
        nn = float(rng.uniform(1.3, 1.8))
        a = Sphere(n=nn, r=N(lo=0.5, hi=1.0), center=V())
        b = Sphere(n=nn, r=N(lo=0.2, hi=0.6), center=V())
        return {"Union": Union, "Difference": Difference, "Intersection": Intersection}[what](a, b)
    if what in ("Uniform", "Gaussian", "BoundedGaussian"):
        return _prior(rng, {"Uniform": ["U", "Uinf"][int(rng.integers(0, 2))], "Gaussian": "G", "BoundedGaussian": "BG"}[what])
    if what == "ComplexPrior":
        re = _prior(rng) if rng.random() < 0.7 else float(rng.uniform(1, 2))
        im = _prior(rng) if rng.random() < 0.5 else float(rng.uniform(0.001, 0.1))
        return ComplexPrior(re, im, name=[None, "cn"][int(rng.integers(0, 2))])
    if what == "TransformedPrior":
        p, q = _prior(rng, "U"), _prior(rng, "G")
        # (every spelling in turn, by repetition number: each has its own way into the text form)
        return [p * 3 + 1, p + q, 2 - p, p / q, p ** 2, -p, 1 / p, (p + 1) * (q - 0.5)][_REP[0] % 8]
    if what == "ScipyUfuncPrior":
        import scipy.special as sp_
        f = [sp_.expit, sp_.erf, sp_.gamma, sp_.log1p][_REP[0] % 4]
        return TransformedPrior(f, _prior(rng, "U"), name=[None, "squashed"][int(rng.integers(0, 2))])
    if what == "BoundMethodPrior":
        owner = _prior(rng, "U", named=["offset", "a of b", "roof", None][_REP[0] % 4])
        return TransformedPrior(owner.unscale, _prior(rng, "U"))
    if what == "SphereXarrayValue":
        import xarray as xr
        labs = [["red", "green"], ["uv", "ir"], [405, 658]][int(rng.integers(0, 3))]
        nval = xr.DataArray([1.5, 1.6] if _REP[0] % 2 == 0 else [1.5 + 0.01j, 1.6], dims=["illumination"], coords={"illumination": labs})
        return Sphere(n=nval, r=N(lo=0.3, hi=0.9), center=V())
    if what == "ModelNestedRigid":
        rc = RigidCluster(Spheres([Sphere(n=1.5, r=0.3, center=[0.0, 0.0, 0.0]), Sphere(n=1.5, r=0.3, center=[0.7, 0.0, 0.0])], warn=False),
                          translation=[_prior(rng, "U"), 2.0, _prior(rng, "U")], rotation=(_prior(rng, "U"), 0.0, 0.0))
        members = [rc, Sphere(n=1.5, r=_prior(rng, "U"), center=[5.0, 5.0, 5.0])]
        if _REP[0] % 2:
            members = members[::-1]
        return AlphaModel(Scatterers(members), theory=Multisphere(), noise_sd=0.1, medium_index=1.33, illum_wavelen=0.66, illum_polarization=(1, 0))
    if what == "ModelManyMembers":
        nmem = 11 + _REP[0] % 4
        mem = []
        for j in range(nmem):
            fitted = j in (1, 10, nmem - 1) or (j == 0 and _REP[0] % 2)
            mem.append(Sphere(n=1.5 + 0.01 * j, r=_prior(rng, "U") if fitted else 0.1 + 0.01 * j, center=[float(3 * j), _prior(rng, "G") if j == 10 else 0.0, 5.0]))
        coll = Spheres(mem, warn=False) if _REP[0] % 3 else Scatterers(mem[:2] + [Scatterers(mem[2:])])
        return AlphaModel(coll, alpha=_prior(rng, "U"), theory=Mie(), noise_sd=0.1, medium_index=1.33, illum_wavelen=0.66, illum_polarization=(1, 0))
    if what == "UfuncPrior":
        p, q = _prior(rng, "U"), _prior(rng, "U")
        return [np.sqrt(p), np.exp(p), np.maximum(p, q), np.add(p, 2.5), np.sin(np.sqrt(p)), TransformedPrior(np.hypot, [p, q], name="h"), 2.0 / p, q / np.sqrt(p)][_REP[0] % 8]
    if what == "Mie":
        return Mie(compute_escat_radial=bool(rng.integers(0, 2)), full_radial_dependence=bool(rng.integers(0, 2)), eps1=N(lo=1e-3, hi=1e-1), eps2=1e-16)
    if what == "Multisphere":
        return Multisphere(niter=N(integer=True), eps=1e-7, meth=int(rng.integers(0, 2)), qeps1=1e-6, qeps2=1e-9, compute_escat_radial=bool(rng.integers(0, 2)))
    if what == "Tmatrix":
        return Tmatrix()
    if what == "MieLens":
        return MieLens(lens_angle=N(lo=0.2, hi=1.2) if rng.random() < 0.6 else _prior(rng, "U"),
                       calculator_accuracy_kwargs={} if rng.random() < 0.5 else {"quad_npts": 50, "interpolate_integrals": [True, False, "check"][int(rng.integers(0, 3))]})
    if what == "AberratedMieLens":
        sa = [N(lo=-1, hi=1), [0.1, -0.2], V(3, lo=-1, hi=1), _prior(rng, "G")][int(rng.integers(0, 4))]
        return AberratedMieLens(spherical_aberration=sa, lens_angle=N(lo=0.2, hi=1.2))
    if what == "Lens":
        import warnings
        with warnings.catch_warnings():
            warnings.simplefilter("ignore")
            return Lens(N(lo=0.2, hi=1.2), [Mie(), Multisphere(), Tmatrix()][int(rng.integers(0, 3))], quad_npts_theta=int(rng.integers(10, 60)), quad_npts_phi=int(rng.integers(10, 60)))
    if what == "NmpfitStrategy":
        dmp = [0, 0.5, 2.0][int(rng.integers(0, 3))]
        st = NmpfitStrategy(npixels=None if none else N(integer=True), quiet=bool(rng.integers(0, 2)), ftol=1e-9, xtol=1e-8, gtol=1e-7, damp=dmp, maxiter=N(integer=True), seed=None if none else N(integer=True))
        _GIVEN[id(st)] = {"damp": dmp, "ftol": 1e-9, "xtol": 1e-8, "gtol": 1e-7}
        return st
    if what == "LeastSquaresScipyStrategy":
        return LeastSquaresScipyStrategy(ftol=1e-9, xtol=1e-8, gtol=1e-7, max_nfev=None if none else N(integer=True), npixels=None if none else N(integer=True))
    if what == "CmaStrategy":
        return CmaStrategy(npixels=None if none else N(integer=True), popsize=None if rng.random() < 0.5 else int(rng.integers(4, 20)),
                           resample_pixels=bool(rng.integers(0, 2)), parent_fraction=[0.25, 0.3, 0.5][int(rng.integers(0, 3))],
                           tols={"maxiter": 5} if rng.random() < 0.5 else {}, seed=None if none else N(integer=True), parallel=None if none else "auto")
    if what == "EmceeStrategy":
        return EmceeStrategy(nwalkers=N(integer=True), nsamples=N(integer=True), npixels=None if none else N(integer=True), walker_initial_pos=None,
                             parallel=None if none else "auto", seed=None if none else N(integer=True))
    if what == "TemperedStrategy":
        return TemperedStrategy(next_initial_dist=lambda_free_next(), nwalkers=N(integer=True), min_pixels=N(integer=True), npixels=N(integer=True) + 60, walker_initial_pos=None,
                                parallel=None if none else "auto", stages=int(rng.integers(1, 4)), stage_len=N(integer=True), seed=None if none else N(integer=True))
    if what == "LimitOverlaps":
        return LimitOverlaps(fraction=N(lo=0.01, hi=0.5))
    if what == "UncertainValue":
        return UncertainValue(N(), N(lo=0.01, hi=0.2), None if none else N(lo=0.01, hi=0.2), name=[None, "r"][int(rng.integers(0, 2))])
    if what == "SphereWithPriors":
        p = _prior(rng, "U")
        return Sphere(n=[_prior(rng), ComplexPrior(_prior(rng, "U"), 0.01), 1.5][int(rng.integers(0, 3))], r=p, center=[p * 2, _prior(rng, "G"), 3.0])
    if what == "ModelXarrayChannels":
        # per-channel values handed over as labelled arrays (string or integer channel labels) instead of dictionaries
        import xarray as xr
        labs = [["red", "green"], ["uv", "ir"], [405, 658]][int(rng.integers(0, 3))]
        arr = lambda vals: xr.DataArray(vals, dims=["illumination"], coords={"illumination": labs})
        pol = xr.DataArray([[1, 0], [0, 1]], dims=["illumination", "vector"], coords={"illumination": labs, "vector": ["x", "y"]})
        sph = Sphere(n=arr([_prior(rng, "U"), _prior(rng, "G")]), r=_prior(rng, "U"), center=[1.0, 2.0, _prior(rng, "U")])
        return AlphaModel(sph, alpha=_prior(rng, "U"), theory=Mie(), illum_wavelen=arr([0.66, _prior(rng, "U")]), medium_index=arr([1.33, 1.34]),
                          illum_polarization=pol, noise_sd=arr([0.1, 0.2]))
    if what == "ModelTiedTheory":
        # ties that involve the THEORY's fitted parameters: add_tie on two of them, or one prior object used by the theory
        # and elsewhere in the model (scaling / optics)
        s1 = Sphere(n=_prior(rng, "U"), r=_prior(rng, "U"), center=[1.0, 2.0, _prior(rng, "U")])
        kind = int(rng.integers(0, 3))
        if kind == 0:
            th = AberratedMieLens(spherical_aberration=[Uniform(-2.0, 2.0), Uniform(-2.0, 2.0)], lens_angle=_prior(rng, "U"))
            m = AlphaModel(s1, alpha=_prior(rng, "U"), noise_sd=0.1, medium_index=1.33, illum_wavelen=0.66, illum_polarization=(1, 0), theory=th)
            sa = [nm for nm in m.parameters if nm.startswith("spherical_aberration")]
            m.add_tie(sa, new_name=[None, "sa"][int(rng.integers(0, 2))])
            return m
        shared = Uniform(0.5, 1.0)
        if kind == 1:
            return AlphaModel(s1, alpha=shared, noise_sd=0.1, medium_index=1.33, illum_wavelen=0.66, illum_polarization=(1, 0), theory=MieLens(lens_angle=shared))
        return ExactModel(s1, noise_sd=shared, medium_index=1.33, illum_wavelen=0.66, illum_polarization=(1, 0), theory=MieLens(lens_angle=shared))
    if what in ("AlphaModel", "ExactModel", "ModelTied", "ModelChannels"):
        p = _prior(rng, "U", named=[None, "shared"][int(rng.integers(0, 2))])
        s1 = Sphere(n=_prior(rng, "U"), r=p, center=[_prior(rng, "G"), 2.0, _prior(rng, "U")])
        th = [Mie, MieLens(lens_angle=_prior(rng, "U"))][int(rng.integers(0, 2))]
        if what == "ModelTied":
            r1, r2 = Uniform(0.3, 0.9), Uniform(0.3, 0.9)
            sc = Spheres([Sphere(n=1.5, r=r1, center=[1, 1, 10.0]), Sphere(n=_prior(rng, "U"), r=r2, center=[3, 1, _prior(rng, "U")]), Sphere(n=1.5, r=p, center=[5, p, 10.0])], warn=False)
            m = AlphaModel(sc, alpha=_prior(rng, "U"), noise_sd=0.1, medium_index=1.33, illum_wavelen=0.66, illum_polarization=(1, 0), theory=Mie)
            m.add_tie(["0:r", "1:r"], new_name=[None, "tied radius"][int(rng.integers(0, 2))])      # (a name no other parameter can have)
            return m
        if what == "ModelChannels":
            return AlphaModel(s1, alpha=_prior(rng, "U"), noise_sd={"red": 0.1, "green": _prior(rng, "U")}, medium_index=1.33,
                              illum_wavelen={"red": 0.66, "green": 0.52}, illum_polarization={"red": (1, 0), "green": (0, 1)}, theory=th)
        kw = dict(noise_sd=[0.1, None, _prior(rng, "U")][int(rng.integers(0, 3))], medium_index=[1.33, _prior(rng, "U")][int(rng.integers(0, 2))],
                  illum_wavelen=0.66, illum_polarization=(1, 0), theory=th)
        if rng.random() < 0.4:
            s1 = Spheres([s1, Sphere(n=1.5, r=p, center=[4.0, 4.0, 9.0])], warn=False)
            kw["constraints"] = [LimitOverlaps(0.2)]
        if what == "AlphaModel":
            if rng.random() < 0.3:
                # rigid cluster whose orientation and position are fitted
                rcl = RigidCluster(Spheres([Sphere(n=1.5, r=0.5, center=[0.0, 0.0, 0.0]), Sphere(n=1.5, r=0.5, center=[1.2, 0.0, 0.0])], warn=False),
                                   rotation=[0.0, _prior(rng, "U"), [0.0, _prior(rng, "U")][int(rng.integers(0, 2))]], translation=[1.0, 2.0, _prior(rng, "U")])
                kw.pop("constraints", None)
                return AlphaModel(rcl, alpha=_prior(rng, "U"), **kw)
            return AlphaModel(s1, alpha=[_prior(rng, "U"), 0.8][int(rng.integers(0, 2))], **kw)
        from holopy.scattering import calc_holo, calc_intensity, calc_field
        return ExactModel(s1, calc_func=[calc_holo, calc_intensity, calc_field][int(rng.integers(0, 3))], **kw)
    raise ValueError(what)


def lambda_free_next():
    from holopy.inference.emcee import sample_one_sigma_gaussian
    return sample_one_sigma_gaussian


def _norm(v, depth=0):
    """normal form of a constructor-argument value for comparison"""
    import xarray as xr
    from holopy.core.holopy_object import HoloPyObject
    if depth > 12:
        return "<deep>"
    if isinstance(v, np.str_):
        return str(v)          # a numpy string is the same value as the plain string it is saved as
    if v is None or isinstance(v, (bool, str)):
        return v
    if isinstance(v, (np.bool_,)):
        return bool(v)
    if isinstance(v, (int, np.integer)):
        return int(v)
    if isinstance(v, (float, np.floating)):
        return float(v)
    if isinstance(v, (complex, np.complexfloating)):
        return complex(v)
    if isinstance(v, xr.DataArray):
        # labelled array: dimension names, labels and (normalised) values
        return {"__dataarray__": list(map(str, v.dims)), "coords": {str(d): _norm(v[d].values, depth + 1) for d in v.dims},
                "values": _norm(v.values, depth + 1)}
    if isinstance(v, np.ndarray):
        return [_norm(x, depth + 1) for x in v.tolist()]
    if isinstance(v, (list, tuple)):
        return [_norm(x, depth + 1) for x in v]
    if isinstance(v, dict):
        return {str(k): _norm(x, depth + 1) for k, x in v.items()}
    if isinstance(v, HoloPyObject):
        return {"__class__": type(v).__name__, "args": _ctor_args(v, depth + 1)}
    if isinstance(v, np.ufunc) or callable(v):
        return "callable:" + getattr(v, "__name__", repr(v))
    if isinstance(v, type):
        return "class:" + v.__name__
    return repr(v)


def _ctor_args(obj, depth=0):
    """value of every constructor argument, read from the instance by argument name"""
    out = {}
    try:
        sig = inspect.signature(type(obj).__init__)
    except (TypeError, ValueError):
        return out
    for name, par in list(sig.parameters.items())[1:]:
        if par.kind in (par.VAR_POSITIONAL, par.VAR_KEYWORD):
            continue
        if hasattr(obj, name):
            out[name] = _norm(getattr(obj, name), depth)
        else:
            out[name] = "<no attribute>"
    return out


def _diff(a, b, path=""):
    """first difference between two normal forms"""
    if type(a) is not type(b):
        if isinstance(a, (int, float)) and isinstance(b, (int, float)) and float(a) == float(b):
            return None
        return "%s: %r vs %r" % (path, a, b)
    if isinstance(a, dict):
        for k in sorted(set(a) | set(b)):
            if k not in a or k not in b:
                return "%s.%s: present on one side only" % (path, k)
            d = _diff(a[k], b[k], path + "." + k)
            if d:
                return d
        return None
    if isinstance(a, list):
        if len(a) != len(b):
            return "%s: length %d vs %d" % (path, len(a), len(b))
        for i, (x, y) in enumerate(zip(a, b)):
            d = _diff(x, y, "%s[%d]" % (path, i))
            if d:
                return d
        return None
    if isinstance(a, float) and a != a and b != b:
        return None
    return None if a == b else "%s: %r vs %r" % (path, a, b)


_GIVEN = {}


def _cycle(obj, target, td, k):
    import yaml
    import holopy as hp
    from holopy.core.io import serialize
    if target == "file":
        p = os.path.join(td, "o%d.yaml" % k)
        hp.save(p, obj)
        text = open(p, "rb").read().decode()
        return hp.load(p), text
    if target == "hp_textstream":
        tbuf = io.StringIO()             # the public save / load pair on a text stream
        hp.save(tbuf, obj)
        text = tbuf.getvalue()
        tbuf.seek(0)
        return hp.load(tbuf), text
    if target in ("tempfile_binary", "tempfile_text"):
        # the standard library's temporary files are streams too (wrappers, not io.IOBase instances)
        with tempfile.NamedTemporaryFile("w+b" if target == "tempfile_binary" else "w+", dir=td) as fh:
            hp.save(fh, obj)
            fh.seek(0)
            raw = fh.read()
            text = raw.decode() if isinstance(raw, bytes) else raw
            fh.seek(0)
            return hp.load(fh), text
    if target == "textstream":
        tbuf = io.StringIO()             # a stream opened in text mode is a stream target too
        serialize.save(tbuf, obj)
        text = tbuf.getvalue()
        return serialize.load(io.BytesIO(text.encode())), text
    buf = io.BytesIO()
    serialize.save(buf, obj)
    text = buf.getvalue().decode()
    return serialize.load(io.BytesIO(buf.getvalue())), text


def _run_none_probe(case):
    import yaml
    from holopy.core.io import serialize
    from holopy.scattering.scatterer import Sphere, Spheres, Spheroid, Cylinder, Ellipsoid, Capsule
    from holopy.core.prior import Uniform, Gaussian, BoundedGaussian
    from holopy.scattering.theory import Mie, Multisphere, MieLens
    from holopy.scattering.theory.mielens import AberratedMieLens
    from holopy.inference import NmpfitStrategy, LeastSquaresScipyStrategy
    from holopy.inference.cmaes import CmaStrategy
    from holopy.inference.emcee import EmceeStrategy, TemperedStrategy
    from holopy.inference.model import LimitOverlaps
    from holopy.inference.result import UncertainValue
    rng = rng_for(*case["seed"])
    table = [(EmceeStrategy, {}), (TemperedStrategy, {}), (CmaStrategy, {}), (NmpfitStrategy, {}), (LeastSquaresScipyStrategy, {}), (Mie, {}), (Multisphere, {}),
             (MieLens, {}), (AberratedMieLens, {}), (Uniform, {"lower_bound": 0.5, "upper_bound": 1.5}), (Gaussian, {"mu": 1.0, "sd": 0.2}),
             (BoundedGaussian, {"mu": 1.0, "sd": 0.2}), (Sphere, {"n": 1.5, "center": [1.0, 2.0, 3.0]}), (Spheroid, {"n": 1.5, "r": [0.3, 0.5], "center": [1.0, 2.0, 3.0]}),
             (Cylinder, {"n": 1.5, "h": 1.0, "d": 0.5, "center": [1.0, 2.0, 3.0]}), (LimitOverlaps, {}), (UncertainValue, {"guess": 1.0, "plus": 0.1})]
    table.sort(key=lambda t: len(t[0].__mro__))
    if case["order"] == "children_first":
        table.reverse()
    elif case["order"] == "shuffled":
        table = [table[i] for i in rng.permutation(len(table))]
    flags, witness = {}, []
    probes = 0
    for cls, base in table:
        sig = inspect.signature(cls.__init__)
        # a plain instance goes through the serializer first (ordinary use before the unusual one)
        try:
            yaml.dump(cls(**base), default_flow_style=True)
        except Exception:
            pass
        for name, par in list(sig.parameters.items())[1:]:
            if par.default is inspect.Parameter.empty or par.default is None or name in base:
                continue
            try:
                obj = cls(**dict(base, **{name: None}))
            except Exception:
                continue      # the class itself rejects None here
            if not hasattr(obj, name) or getattr(obj, name) is not None:
                continue      # argument is consumed / replaced by the constructor
            probes += 1
            try:
                t1 = yaml.dump(obj, default_flow_style=True)
                o2 = yaml.load(t1, Loader=yaml.FullLoader)
                t2 = yaml.dump(o2, default_flow_style=True)
            except Exception as e:
                flags["none_probe_roundtrip_raises"] = False
                witness.append("%s(%s=None): %r" % (cls.__name__, name, e))
                continue
            if getattr(o2, name, "<missing>") is not None:
                flags["args_none"] = False
                witness.append("%s(%s=None) reloads with %s=%r" % (cls.__name__, name, name, getattr(o2, name, "<missing>")))
            if t1 != t2:
                flags["text_first_cycle"] = False
                witness.append("%s(%s=None): text changes on re-save" % (cls.__name__, name))
    return {"resid": {}, "flags": flags, "witness": witness[:6], "nargs": probes, "text": ""}


def run_case(case):
    if case["kind"] == "inventory":
        return _run_inventory(case)
    if case["kind"] == "none_probe":
        return _run_none_probe(case)
    from holopy.inference.model import Model
    from vf.monitors import digest
    rng = rng_for(*case["seed"])
    _REP[0] = int(case["seed"][-1]) // len(KINDS) if isinstance(case["seed"][-1], int) else 0
    obj = _make(case["what"], rng, case["argstyle"])
    flags, witness = {}, []
    # "the same value for every constructor argument" starts with the object itself holding the values it was given
    for k_, v_ in _GIVEN.pop(id(obj), {}).items():
        if getattr(obj, k_, "<no attribute>") != v_:
            flags["constructor_argument_kept"] = False
            witness.append("%s given as %r, held as %r" % (k_, v_, getattr(obj, k_, "<no attribute>")))
    td = tempfile.mkdtemp(prefix="vf_c15_")
    try:
        a0 = _ctor_args(obj) if not isinstance(obj, Model) else None
        d0 = digest(obj)
        cur, texts = obj, []
        for k in range(case["cycles"] + 1):
            nxt, text = _cycle(cur, case["target"], td, k)
            texts.append(text)
            if k < case["cycles"]:
                flags["class@%d" % k] = bool(type(nxt) is type(obj))
                # full instance state (catches constructor arguments that are not kept under their own name)
                ds = _diff(_norm(dict(vars(obj))), _norm(dict(vars(nxt))))
                if ds:
                    flags["state@%d" % k] = False
                    witness.append("cycle %d state: %s" % (k, ds))
                if a0 is not None:
                    d = _diff(a0, _ctor_args(nxt))
                    if d:
                        key = "args"
                        if "None" in d.split(":")[-1] or "<no attribute>" in d:
                            key = "args_none"
                        flags["%s@%d" % (key, k)] = False
                        witness.append("cycle %d: %s" % (k, d))
                cur = nxt
        flags["original_untouched"] = bool(digest(obj) == d0)
        for k in range(1, len(texts)):
            if texts[k] != texts[k - 1]:
                key = "text_first_cycle" if k == 1 else "text_later_cycle"
                flags[key] = False
                i = next((j for j in range(min(len(texts[k]), len(texts[k - 1]))) if texts[k][j] != texts[k - 1][j]), 0)
                witness.append("text %d vs %d differ at %d: %r vs %r" % (k - 1, k, i, texts[k - 1][max(0, i - 30):i + 40], texts[k][max(0, i - 30):i + 40]))
        # (library equality is claimed for list / scalar arguments only: this kind holds arrays whatever the style)
        if case["argstyle"] == "python" and not isinstance(obj, Model) and case["what"] not in ("SharedContainer", "BoundMethodPrior", "SphereXarrayValue"):      # (a bound method / labelled array is neither list nor scalar)
            try:
                flags["library_equality"] = bool(cur == obj)
            except Exception as e:
                flags["library_equality"] = False
                witness.append("== raised %r" % (e,))
        if isinstance(obj, Model):
            flags["model_names"] = bool(list(cur._parameter_names) == list(obj._parameter_names))
            flags["model_parameters_equal"] = bool(cur._parameters == obj._parameters)
            vals = [1.1 + 0.37 * j for j in range(len(obj._parameters))]
            try:
                s_a = obj.scatterer_from_parameters(vals)
                s_b = cur.scatterer_from_parameters(vals)
                flags["model_value_to_place"] = bool(_diff(_norm(s_a), _norm(s_b)) is None)
                t_a, t_b = obj.theory_from_parameters(vals), cur.theory_from_parameters(vals)
                flags["model_theory_mapping"] = bool(_diff(_norm(t_a), _norm(t_b)) is None)
            except Exception as e:
                flags["model_value_to_place"] = False
                witness.append("mapping raised %r" % (e,))
            flags["model_class"] = bool(type(cur) is type(obj))
            flags["model_constraints_kept"] = bool(_diff(_norm(list(obj.constraints)), _norm(list(cur.constraints))) is None)
            for k_ in ("medium_index", "illum_wavelen", "illum_polarization", "noise_sd"):
                try:
                    if _diff(_norm(getattr(obj, k_)), _norm(getattr(cur, k_))) is not None:
                        flags["model_optics_" + k_] = False
                        witness.append("%s: %r vs %r" % (k_, getattr(obj, k_), getattr(cur, k_)))
                except Exception:
                    pass
            if hasattr(obj, "alpha"):
                flags["model_alpha"] = bool(_diff(_norm(obj.alpha), _norm(cur.alpha)) is None)
            if hasattr(obj, "calc_func"):
                flags["model_calc_func"] = bool(cur.calc_func is obj.calc_func)
    finally:
        shutil.rmtree(td, ignore_errors=True)
    return {"resid": {}, "flags": flags, "witness": witness[:4], "nargs": len(a0) if a0 else 1, "text": texts[0][:300]}


def _run_inventory(case):
    """HoloPyObject classes reachable from the public packages vs. the generator table"""
    import holopy.scattering as sc
    import holopy.inference as inf
    from holopy.core.holopy_object import HoloPyObject
    import holopy.inference.model, holopy.inference.result, holopy.inference.emcee, holopy.inference.cmaes
    seen = {}
    for mod in [sc, sc.scatterer, sc.theory, inf, inf.prior, inf.model, holopy.inference.result, holopy.inference.emcee, holopy.inference.cmaes]:
        for n_, o in vars(mod).items():
            if inspect.isclass(o) and issubclass(o, HoloPyObject):
                seen[o.__name__] = o
    covered = set(KINDS) | {"Model", "TransformedPrior", "Prior", "CenteredScatterer", "CsgScatterer", "ScatteringTheory", "FitResult", "SamplingResult", "TemperedSamplingResult"}
    not_generated = sorted(set(seen) - covered)
    return {"resid": {}, "flags": {}, "witness": [], "nargs": 1, "inventory": sorted(seen), "not_generated": not_generated}


# ------------------------------------------------------------------ oracle

def judge(case, obs):
    out = []
    for k, v in obs["flags"].items():
        if not v:
            base = k.split("@")[0]
            out.append({"mech": "%s.%s" % (base, case.get("what")), "detail": "flag %s false; flavour=%s target=%s witness=%s text=%s" % (k, case.get("argstyle"), case.get("target"), obs.get("witness"), obs.get("text", "")[:160])})
    return out


def judge_exception(case, o):
    ex = o["exception"]
    return [{"mech": "exception.%s.%s" % (ex["type"], case.get("what")), "detail": ex["tb"][-900:] + " ;; flavour=%s" % case.get("argstyle")}]


def nontrivial(case, obs):
    return obs.get("nargs", 0) >= 1


def evidence_extra(cases, obs):
    inv = obs.get("inventory", {}).get("obs", {})
    return {"class_inventory": inv.get("inventory"), "classes_without_generator": inv.get("not_generated")}
