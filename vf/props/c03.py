"""C03 Cross sections obey energy conservation and the optical theorem."""
import math

import numpy as np

from ..util import rng_for, fnum, loguniform
from .. import scat

LEVEL_TEXT = ("Runtime monitoring of calc_cross_sections on the real solvers: a contract monitor on every call checks "
              "extinction = scattering + absorption, absorption >= 0, scattering > 0 and -1 <= g <= 1; an offline oracle relates "
              "the returned numbers to *separately executed* calc_scat_matrix calls (optical theorem at theta=0, Gauss-"
              "Legendre solid-angle integrals for scattering and asymmetry), to an independent textbook series, to the "
              "Rayleigh formula for x <= 0.02 and to the multi-sphere solver on one-sphere clusters, over real/absorbing "
              "indices, size parameters 1e-3..500, layered spheres and all polarizations.")
LEVEL_NOTE = "Trusted: numpy Gauss-Legendre nodes, scipy Bessel functions inside the reference series (validated against mpmath)."
TECHNIQUE = "runtime monitoring: contract monitor on calc_cross_sections + cross-entry-point relational oracle (optical theorem, quadrature of the recorded scattering matrix, reference series)"
RULE = ("sphere: (m,x) as in C02 with x log-uniform 1e-3..500 plus decades; layered: 2-4 layers; rayleigh: x in [1e-3,0.02]; "
        "ms1: one-sphere clusters x in [0.1,15] (dblquad asymmetry, slow), truncation tolerances down to 1e-30, 0 and negative (refused or accurate). non-trivial = cext > 0 finite and all relations "
        "evaluated; distinct by rounded case JSON")
ASSUMPTIONS = ["Multisphere compared only inside its validity range (x <= 15 here)",
               "'vanishes for a real index' is read as |cabs| <= 1e-10 cext (cabs is computed as a difference of two sums)"]
MIN_NONTRIVIAL = 20
REQUIRED_COUNTERS = ["calc_cross_sections", "calc_scat_matrix"]
CASE_TIMEOUT = 900


def _gen_m(rng, i):
    r = i % 5
    if r == 0:
        return [float(rng.uniform(1.05, 2.5)), 0.0]
    if r == 1:
        return [float(rng.uniform(0.75, 0.97)), 0.0]
    if r == 2:
        return [float(rng.uniform(1.05, 2.5)), float(loguniform(rng, 1e-4, 0.5))]
    if r == 3:
        return [float(rng.uniform(1.1, 1.7)), float(loguniform(rng, 1e-8, 1e-3))]
    return [1.0 + float(rng.choice([-1, 1])) * float(loguniform(rng, 1e-3, 3e-2)), 0.0]


def cases(tier, seed):
    out = []
    rng = rng_for(seed, "c03")
    n = 300 if tier == "quick" else 12000
    decades = [1e-3, 1e-2, 0.1, 1.0, 10.0, 100.0, 300.0, 500.0]
    for i in range(n):
        x = decades[i % 8] if i < 16 else float(loguniform(rng, 1e-3, 500))
        out.append({"id": "sph-%d" % i, "kind": "sphere", "m": _gen_m(rng, i), "x": x, "nmed": float(rng.uniform(1.0, 1.6)),
                    "wl": float(loguniform(rng, 0.2, 2.0)), "pol": [float(rng.normal()), float(rng.normal())], "cost": 1 + x / 40})
    for i in range(n // 3):
        out.append({"id": "lay-%d" % i, "kind": "layered", "nlayers": 2 + i % 3, "seed": [seed, "lay", i], "cost": 2})
    for i in range(n // 4):
        out.append({"id": "ray-%d" % i, "kind": "rayleigh", "m": _gen_m(rng, i % 3), "x": float(loguniform(rng, 1e-3, 0.02)),
                    "nmed": float(rng.uniform(1.0, 1.6)), "wl": float(loguniform(rng, 0.2, 2.0))})
    nm = 16 if tier == "quick" else 400
    for i in range(nm):
        out.append({"id": "ms1-%d" % i, "kind": "ms1", "m": _gen_m(rng, i % 3), "x": float(loguniform(rng, 0.1, 15) if tier != "quick" else loguniform(rng, 0.1, 6)),
                    "nmed": float(rng.uniform(1.0, 1.6)), "wl": float(rng.uniform(0.4, 0.8)), "pol_angle": float(rng.uniform(0, 6.28)), "cost": 40, "timeout": 900})
    # one-sphere clusters where x and m*x are both close to zeros of the same spherical Bessel function: a low-order term of
    # the series vanishes by accident there (the series must not be taken as converged at that order)
    for i, (xx, mm) in enumerate([(5.7634, 1.57805), (6.98793, 1.49073), (6.98793, 1.96024), (9.09501, 1.35491), (10.4171, 1.31495),
                                  (5.7634, 1.578047), (5.76345, 1.57803)]):
        out.append({"id": "ms1-zero-%d" % i, "kind": "ms1", "m": [mm, 0.0], "x": xx, "nmed": 1.33, "wl": 0.66, "pol_angle": 0.3 * i, "cost": 20, "timeout": 900})
    # one-sphere clusters whose sphere is larger than the expansion order compiled into the multi-sphere code (32) can carry
    for i, xx in enumerate([30.0, 40.0, 60.0] if tier == "quick" else [26.0, 30.0, 35.0, 40.0, 50.0, 60.0, 80.0, 100.0]):
        out.append({"id": "ms1-large-%d" % i, "kind": "ms1", "m": [1.2, 0.0], "x": xx, "nmed": 1.0, "wl": 0.6, "pol_angle": 0.4, "cost": 60, "timeout": 1500})
    # small clusters solved by the multi-sphere theory: the same relations between its two public entry points (F134)
    for i in range(6 if tier == "quick" else 80):
        out.append({"id": "cluster-%d" % i, "kind": "cluster", "nsph": 2 + i % 2, "seed": [seed, "cluster", i], "cost": 60, "timeout": 1500,
                    # every third one is a pair whose centres are a whole number of half wavelengths apart (k d = N pi: F143)
                    "kd_pi": (2 + (i // 3) % 5) if i % 3 == 1 else None})
    # layered spheres with a strongly absorbing (metallic) shell, up to size parameters of several hundred
    for i, kR in enumerate([20.0, 100.0, 190.0, 200.0, 261.0, 400.0]):
        out.append({"id": "lay-metal-%d" % i, "kind": "metal_shell", "kR": kR, "shell": [0.16, 4.9], "core": 1.45, "frac": [0.9, 0.8, 0.5][i % 3], "cost": 3})
    return out


# ------------------------------------------------------------------ child

def _run_metal_shell(case):
    """silica core in a thick gold-like shell: finite, energy-conserving, and (the shell being opaque) equal to the solid metal sphere"""
    from holopy.scattering import Sphere, Mie, calc_cross_sections
    nmed, wl = 1.33, 0.8
    k = 2 * math.pi * nmed / wl
    R = case["kR"] / k
    nsh = complex(*case["shell"])
    a = calc_cross_sections(Sphere(n=(case["core"], nsh), r=(case["frac"] * R, R)), nmed, wl, (1, 0), theory=Mie()).values
    b = calc_cross_sections(Sphere(n=nsh, r=R), nmed, wl, (1, 0), theory=Mie()).values
    flags = {"finite": bool(np.all(np.isfinite(a))), "absorption_nonnegative": bool(np.all(np.isfinite(a)) and a[1] >= -1e-10 * a[2])}
    resid = {}
    opaque = (1 - case["frac"]) * case["kR"] * nsh.imag / nmed > 40       # exp(-2 * 40) : the core is invisible
    if opaque and flags["finite"]:
        resid["opaque_shell_equals_solid"] = fnum(float(np.abs(a[:3] - b[:3]).max() / b[2]))
    return {"resid": resid, "flags": flags, "cond": 0.0, "x": case["kR"], "cext": float(b[2])}


def _relations(s, nmed, wl, pol, theory, xmax):
    """optical theorem + quadrature relations from separately executed calc_scat_matrix calls"""
    import holopy as hp
    from holopy.scattering import calc_cross_sections, calc_scat_matrix
    k = 2 * math.pi * nmed / wl
    cs = calc_cross_sections(s, nmed, wl, pol, theory=theory).values
    csca, cabs, cext, g = [float(v) for v in cs]
    S0 = calc_scat_matrix(hp.detector_points(theta=np.array([0.0]), phi=np.array([0.0])), s, nmed, wl, theory=theory).values[0]
    resid = {}
    resid["optical_theorem"] = fnum(abs(4 * math.pi / k ** 2 * S0[0, 0].real - cext) / cext)
    resid["optical_theorem@S1"] = fnum(abs(4 * math.pi / k ** 2 * S0[1, 1].real - cext) / cext)
    nq = int(2 * (xmax + 4.05 * xmax ** (1 / 3.) + 2) + 24)
    mu, w = np.polynomial.legendre.leggauss(nq)
    th = np.arccos(mu)
    S = calc_scat_matrix(hp.detector_points(theta=th, phi=0 * th + 0.7), s, nmed, wl, theory=theory).values
    inten = (np.abs(S[:, 0, 0]) ** 2 + np.abs(S[:, 1, 1]) ** 2) / 2
    csca_q = 2 * math.pi / k ** 2 * float((w * inten).sum())
    g_q = 2 * math.pi / k ** 2 * float((w * inten * mu).sum()) / csca_q
    resid["cscat_integral"] = fnum(abs(csca_q - csca) / csca)
    resid["g_integral"] = fnum(abs(g_q - g))
    return cs, resid


def _run_cluster(case):
    """a cluster of two or three spheres in general position, tight solver settings: extinction from the forward amplitude, scattering and
    asymmetry from the solid-angle integral of |S e_inc|^2 with the incident polarization resolved parallel / perpendicular to each
    scattering plane (E_par = px cos(phi) + py sin(phi), E_perp = px sin(phi) - py cos(phi)), absorption of real-index spheres zero"""
    import holopy as hp
    from holopy.scattering import Multisphere, calc_cross_sections, calc_scat_matrix
    rng = rng_for(*case["seed"])
    o = scat.gen_optics(rng)
    cl = scat.gen_cluster(rng, o, case["nsph"], xmax=3.0, xmin=0.8, gap=(0.05, 0.6), absorbing=False)
    if case.get("kd_pi"):
        d_ = case["kd_pi"] * o["illum_wavelen"] / (2 * o["medium_index"])
        r_ = 0.3 * d_
        cl = {"t": "spheres", "members": [{"t": "sphere", "n": scat.gen_index(rng, o, False), "r": r_, "c": [0.5, 0.25, 10.0]},
                                          {"t": "sphere", "n": scat.gen_index(rng, o, False), "r": r_ * 0.9, "c": [0.5 + d_, 0.25, 10.0]}]}
    s = scat.build_scatterer(cl)
    th = Multisphere(qeps1=1e-12, qeps2=1e-14, eps=1e-12)
    nmed, wl, pol = o["medium_index"], o["illum_wavelen"], np.asarray(o["illum_polarization"], dtype=float)
    pol = pol / np.linalg.norm(pol)
    k = 2 * math.pi * nmed / wl
    cs = calc_cross_sections(s, nmed, wl, tuple(pol), theory=th).values
    csca, cabs, cext, g = [float(v) for v in cs]
    S0 = calc_scat_matrix(hp.detector_points(theta=np.array([0.0]), phi=np.array([0.0])), s, nmed, wl, theory=th).values[0]
    e0 = np.array([pol[0], -pol[1]])                 # at phi = 0: parallel = x, perpendicular = -y
    resid = {"optical_theorem": fnum(abs(4 * math.pi / k ** 2 * float((e0 @ S0 @ e0).real) - cext) / cext)}
    # quadrature orders from the size of the cluster: the intensity is a trigonometric polynomial of degree ~2 (k R + a few) in both angles
    cen_ = np.array([m_["c"] for m_ in cl["members"]], dtype=float)
    kR = k * float(max(np.linalg.norm(c_ - cen_.mean(0)) + m_["r"] for c_, m_ in zip(cen_, cl["members"])))
    nth, nph = int(max(40, 2 * kR + 24)), int(max(48, 4 * kR + 40))
    mu, w = np.polynomial.legendre.leggauss(nth)
    ths = np.arccos(mu)
    phs = 2 * math.pi * np.arange(nph) / nph
    T, P = np.meshgrid(ths, phs, indexing="ij")
    S = calc_scat_matrix(hp.detector_points(theta=T.ravel(), phi=P.ravel()), s, nmed, wl, theory=th).values.reshape(nth, nph, 2, 2)
    epar = pol[0] * np.cos(P) + pol[1] * np.sin(P)
    eper = pol[0] * np.sin(P) - pol[1] * np.cos(P)
    inten = np.abs(S[..., 0, 0] * epar + S[..., 0, 1] * eper) ** 2 + np.abs(S[..., 1, 0] * epar + S[..., 1, 1] * eper) ** 2
    csca_q = float((w[:, None] * inten).sum()) * (2 * math.pi / nph) / k ** 2
    g_q = float((w[:, None] * inten * mu[:, None]).sum()) * (2 * math.pi / nph) / k ** 2 / csca_q
    resid["cscat_integral"] = fnum(abs(csca_q - csca) / csca)
    resid["g_integral"] = fnum(abs(g_q - g))
    flags = {"real_index_no_absorption": bool(abs(cabs) <= 1e-6 * cext)}
    return {"resid": resid, "flags": flags, "cond": 0.0, "x": 3.0, "cext": cext}


def run_case(case):
    return globals()["_run_" + case["kind"]](case)


def _run_sphere(case):
    from holopy.scattering import Sphere, Mie
    from vf import refmie
    m = complex(*case["m"])
    if m.imag == 0:
        m = m.real
    nmed, wl, x = case["nmed"], case["wl"], case["x"]
    k = 2 * math.pi * nmed / wl
    r = x / k
    s = Sphere(n=m * nmed, r=r, center=(0, 0, 0))
    cs, resid = _relations(s, nmed, wl, case["pol"], Mie(), x)
    xe = float(k * r); me = (m * nmed) / nmed
    qsca, qext, g = refmie.qs(me, xe)
    geo = math.pi * r ** 2
    resid["ref_cscat"] = fnum(abs(cs[0] / geo - qsca) / qsca)
    resid["ref_cext"] = fnum(abs(cs[2] / geo - qext) / qext)
    resid["ref_g"] = fnum(abs(cs[3] - g))
    qa = refmie.qs(me, xe * (1 + 1e-13)); qb = refmie.qs(me * (1 + 1e-13), xe)
    cond = max(abs(qa[0] - qsca) / qsca, abs(qb[0] - qsca) / qsca, abs(qa[1] - qext) / qext, abs(qb[1] - qext) / qext)
    flags = {}
    if np.isreal(me):
        flags["real_index_no_absorption"] = bool(abs(cs[1]) <= 1e-10 * cs[2])
    else:
        resid["ref_cabs"] = fnum(abs(cs[1] / geo - (qext - qsca)) / qext)
    flags["absorption_nonnegative"] = bool(cs[1] >= -1e-10 * cs[2])
    # polarization does not matter for a sphere
    from holopy.scattering import calc_cross_sections
    cs2 = calc_cross_sections(s, nmed, wl, (1, 0), theory=Mie()).values
    flags["pol_independent"] = bool(np.array_equal(cs2, cs))
    # default theory is Mie
    cs3 = calc_cross_sections(s, nmed, wl, case["pol"]).values
    flags["auto_is_mie"] = bool(np.array_equal(cs3, cs))
    return {"resid": resid, "flags": flags, "cond": fnum(cond), "x": xe, "cext": float(cs[2])}


def _run_layered(case):
    from holopy.scattering import Mie
    rng = rng_for(*case["seed"])
    o = scat.gen_optics(rng)
    spec = scat.gen_layered(rng, o, nlayers=case["nlayers"], xmax=float(loguniform(rng, 1, 60)))
    s = scat.build_scatterer(spec)
    k = scat.kmed(o)
    xmax = k * max(spec["r"])
    cs, resid = _relations(s, o["medium_index"], o["illum_wavelen"], o["illum_polarization"], Mie(), xmax)
    allreal = all(not isinstance(v, list) for v in spec["n"])
    flags = {"absorption_nonnegative": bool(cs[1] >= -1e-10 * cs[2])}
    if allreal:
        flags["real_index_no_absorption"] = bool(abs(cs[1]) <= 1e-10 * cs[2])
    return {"resid": resid, "flags": flags, "cond": 0.0, "x": float(xmax), "cext": float(cs[2])}


def _run_rayleigh(case):
    from holopy.scattering import Sphere, Mie, calc_cross_sections
    m = complex(*case["m"])
    nmed, wl, x = case["nmed"], case["wl"], case["x"]
    k = 2 * math.pi * nmed / wl
    r = x / k
    s = Sphere(n=(m if m.imag else m.real) * nmed, r=r, center=(0, 0, 0))
    cs = calc_cross_sections(s, nmed, wl, (1, 0), theory=Mie()).values
    pol = (m * m - 1) / (m * m + 2)
    ray = 8.0 / 3 * x ** 4 * abs(pol) ** 2 * math.pi * r ** 2
    resid = {"rayleigh_over_x2": fnum(abs(cs[0] - ray) / ray / x ** 2)}
    if m.imag:
        rabs = 4 * x * pol.imag * math.pi * r ** 2
        resid["rayleigh_abs_over_x2"] = fnum(abs(cs[1] - rabs) / rabs / x ** 2)
    resid["rayleigh_g_over_x2"] = fnum(abs(cs[3]) / x ** 2)
    return {"resid": resid, "flags": {}, "cond": 0.0, "x": x, "cext": float(cs[2])}


def _run_ms1(case):
    from holopy.scattering import Sphere, Spheres, Mie, Multisphere, calc_cross_sections
    m = complex(*case["m"])
    if m.imag == 0:
        m = m.real
    nmed, wl, x = case["nmed"], case["wl"], case["x"]
    k = 2 * math.pi * nmed / wl
    s = Sphere(n=m * nmed, r=x / k, center=(0.3, -0.2, 5.0))
    pa = case["pol_angle"]
    pol = (math.cos(pa), math.sin(pa))
    a = calc_cross_sections(s, nmed, wl, pol, theory=Mie()).values
    b = calc_cross_sections(Spheres([s]), nmed, wl, pol, theory=Multisphere(qeps1=1e-10, qeps2=1e-12, eps=1e-10)).values
    resid = {"ms1_xsec": fnum(float(np.abs(a[:3] - b[:3]).max() / a[2])), "ms1_g": fnum(abs(a[3] - b[3]))}
    # the tightest tolerance one can write: smaller means more accurate, down to "refused" -- never a different answer
    flags = {}
    for tol_ in (1e-30, 0.0, -1e-5):
        try:
            th_ = Multisphere(qeps1=tol_, qeps2=1e-12, eps=1e-10)
        except ValueError:
            continue
        c_ = calc_cross_sections(Spheres([s]), nmed, wl, pol, theory=th_).values
        flags["tolerance_%g_refused_or_accurate" % tol_] = bool(float(np.abs(a[:3] - c_[:3]).max() / a[2]) <= 1e-6 or x > 25)
    return {"resid": resid, "flags": flags, "cond": 0.0, "x": x, "cext": float(a[2])}


# ------------------------------------------------------------------ oracle

TOL = {"optical_theorem": 1e-10, "cscat_integral": 1e-7, "g_integral": 1e-8, "ref_cscat": 1e-10, "ref_cext": 1e-10, "ref_g": 1e-10, "ref_cabs": 1e-10,
       "rayleigh_over_x2": 3.0, "rayleigh_abs_over_x2": 5.0, "rayleigh_g_over_x2": 1.0, "ms1_xsec": 1e-8, "ms1_g": 1e-8, "opaque_shell_equals_solid": 1e-9}


def judge(case, obs):
    out = []
    desc = {k: case[k] for k in case if k not in ("seed", "id", "cost")}
    for k, v in obs["resid"].items():
        base = k.split("@")[0]
        t = TOL[base]
        if case["kind"] == "cluster":
            # iterative solver with tight settings: amplitudes good to ~1e-7 (translation-coefficient recurrences), cross sections from them
            t = {"optical_theorem": 1e-5, "cscat_integral": 1e-5, "g_integral": 1e-5}[base]
        if base.startswith("ref_") and obs["cond"] > t / 10:
            continue
        if not v <= t:
            # a one-sphere cluster larger than the multi-sphere code's compiled expansion order can carry is a finding of its own
            regime = ".sphere_beyond_order_32" if case["kind"] == "ms1" and obs["x"] > 25 else ""
            out.append({"mech": "%s.%s%s" % (case["kind"], base, regime), "detail": "%s=%.3e > %.1e (x=%.3g, cond %.1e); %s" % (k, v, t, obs["x"], obs["cond"], desc)})
    for k, v in obs["flags"].items():
        if not v:
            out.append({"mech": "%s.%s" % (case["kind"], k), "detail": "%s" % desc})
    return out


def nontrivial(case, obs):
    return obs.get("cext", 0) > 0 and obs.get("cond", 0) <= 1e-10
