"""C04 Results depend only on dimensionless ratios (unit-agnostic)."""
import math

import numpy as np

from ..util import rng_for, fnum, loguniform, relmax
from .. import scat

LEVEL_TEXT = ("Runtime monitoring with a metamorphic oracle: every generated configuration (all scatterer kinds x all "
              "theories incl. T-matrix and the three lens theories x grid/point detectors x polarizations) is executed "
              "as given, with every length multiplied by a factor drawn over 8 decades (powers and non-powers of ten), and "
              "with (n, n_m, lambda) replaced by (n/n_m, 1, lambda/n_m); holograms, fields, intensities and scattering "
              "matrices of the runs must coincide and cross sections scale with the factor squared. Contract monitors "
              "(finite, coordinates, metadata) run on every call.")
LEVEL_NOTE = "Trusted: floating-point rescaling of the inputs perturbs them by <= 1 ulp each; tolerance 1e-9 leaves >3 decades over the measured 1e-13."
TECHNIQUE = "runtime monitoring: metamorphic relation (length rescaling, index rescaling) between recorded executions of the real solvers"
RULE = ("configs from 11 (scatterer, theory) kinds; scale factor L = 10^u, u uniform in [-4,4], every third case an exact "
        "power of ten, two in seven the units in use (1e-6, 1e-9, 1e6) or the neighbouring powers of TWO (exact rescaling: judged at 1e-10 for every solver); cross sections for single spheres and clusters; non-trivial = scattered field not identically zero; distinct by rounded case JSON")
ASSUMPTIONS = ["cross sections are compared for the theories that implement them (Mie, Multisphere)"]
MIN_NONTRIVIAL = 20
REQUIRED_COUNTERS = ["calc_holo", "calc_field", "calc_scat_matrix", "calc_cross_sections"]
CASE_TIMEOUT = 900


def cases(tier, seed):
    out = []
    rng = rng_for(seed, "c04")
    n = 150 if tier == "quick" else 3000
    for i in range(n):
        kind = scat.ALL_KINDS[i % len(scat.ALL_KINDS)]
        cfg = scat.gen_config(rng, kind)
        u = float(rng.uniform(-4, 4))
        L = 10.0 ** round(u) if i % 3 == 0 else 10.0 ** u
        if i % 7 in (3, 5):
            # the units people actually use next to micrometres: metres (SI), and nanometres the other way round -- as powers of ten, and
            # as the neighbouring powers of TWO, for which every length scales without rounding: the solvers then see bit-identical
            # dimensionless inputs, so not even an iterative solver's tolerance excuses a difference
            L = [1e-6, 2.0 ** -20, 1e-9, 2.0 ** 20, 1e6, 2.0 ** -30][(i // 7) % 6]
        cost = 8 if kind.startswith(("lens", "tmatrix", "multi")) else 1
        out.append({"id": "u-%d" % i, "kind": "units", "ckind": kind, "cfg": cfg, "L": L, "scaling": float(rng.uniform(0.3, 1.5)), "cost": cost,
                    # every third configuration is also written in a small integer unit (tenths of a nanometre, every length a Python int)
                    "intunits": bool(i % 3 == 1),
                    # (the sign of a non-absorbing cluster's absorption at the solver's tolerance is C03's subject, not this check's)
                    "allow_events": ["contract.calc_cross_sections.cabs_negative", "contract.calc_cross_sections.energy"] if kind.startswith("multi") else []})
    # default call form (no theory named): the theory HoloPy picks must not depend on the unit of length either
    na = 40 if tier == "quick" else 800
    for i in range(na):
        o = scat.gen_optics(rng)
        k = scat.kmed(o)
        nsph = 2 + i % 2
        r = [float(rng.uniform(0.5, 3.0)) / k for _ in range(nsph)]
        sep = float(loguniform(rng, 2.2, 120.0)) * max(r)          # in units of the largest radius: both sides of the 30-radius rule
        exact = i % 4 == 1
        if exact:
            # round numbers exactly ON the rule (largest radius 0.3 / 0.5 / 0.25, separation 9 / 15 / 7.5), as a user would type them:
            # the product 30 r rounds differently in different units (F121)
            rr, sep = [(0.3, 9.0), (0.5, 15.0), (0.25, 7.5)][(i // 4) % 3]
            r = [rr] + [rr * 0.8] * (nsph - 1)
        u = rng.normal(size=3); u /= np.linalg.norm(u)
        mem = []
        if exact:
            u = np.array([1.0, 0.0, 0.0])
        for j in range(nsph):
            c = np.array([0.5, 0.3, 20.0 / k + 2 * sep]) + u * sep * j / (nsph - 1)
            if exact:
                c = np.array([0.5 + sep * j / (nsph - 1), 0.25, 32.0])
            mem.append({"t": "sphere", "n": scat.gen_index(rng, o, False), "r": r[j], "c": [float(v) for v in c]})
        cfg = {"optics": o, "scat": {"t": "spheres", "members": mem}, "theory": "auto", "det": scat.gen_grid(rng, maxn=4)}
        uu = float(rng.uniform(-4, 4))
        out.append({"id": "auto-%d" % i, "kind": "auto", "cfg": cfg, "L": ([0.1, 1e-3, 3.0, 10.0][(i // 4) % 4] if exact else (10.0 ** round(uu) if i % 2 else 10.0 ** uu)),
                    "sep_over_rmax": sep / max(r), "cost": 6})
    return out


def _all(cfg, scaling, ckind):
    from holopy.scattering import calc_holo, calc_field, calc_intensity, calc_scat_matrix, calc_cross_sections
    o = cfg["optics"]
    s = scat.build_scatterer(cfg["scat"])
    th = scat.build_theory(cfg["theory"])
    det = scat.build_detector(cfg["det"])
    a = dict(medium_index=o["medium_index"], illum_wavelen=o["illum_wavelen"], illum_polarization=o["illum_polarization"])
    res = {"holo": calc_holo(det, s, theory=th, scaling=scaling, **a), "field": calc_field(det, s, theory=th, **a),
           "intensity": calc_intensity(det, s, theory=th, **a)}
    if cfg["theory"]["t"] in ("Mie", "Multisphere", "Tmatrix") and not (cfg["theory"]["t"] == "Mie" and cfg["scat"]["t"] == "spheres"):
        res["smat"] = calc_scat_matrix(det, s, o["medium_index"], o["illum_wavelen"], theory=th)
    if (cfg["theory"]["t"] == "Mie" and cfg["scat"]["t"] in ("sphere", "layered")) or (cfg["theory"]["t"] == "Multisphere" and cfg["scat"]["t"] == "spheres"):
        res["xsec"] = calc_cross_sections(s, theory=th, **a)
    return res


def _run_auto(case):
    from holopy.scattering import calc_holo, calc_field
    from holopy.scattering.interface import determine_default_theory_for
    cfg, L = case["cfg"], case["L"]
    out = {}
    for nm, c in (("base", cfg), ("scaled", scat.scale_config(cfg, L)), ("reindexed", scat.reindex_config(cfg))):
        o = c["optics"]
        sc = scat.build_scatterer(c["scat"])
        det = scat.build_detector(c["det"])
        a = dict(medium_index=o["medium_index"], illum_wavelen=o["illum_wavelen"], illum_polarization=o["illum_polarization"])
        out[nm] = (type(determine_default_theory_for(sc)).__name__, calc_holo(det, sc, **a), calc_field(det, sc, **a))
    th = out["base"][0]
    flags = {"default_theory_same_after_rescaling": bool(out["scaled"][0] == th), "default_theory_same_after_reindexing": bool(out["reindexed"][0] == th)}
    resid = {"scale_holo@auto": relmax(out["scaled"][1], out["base"][1]), "scale_field@auto": relmax(out["scaled"][2], out["base"][2]),
             "reindex_holo@auto": relmax(out["reindexed"][1], out["base"][1]), "reindex_field@auto": relmax(out["reindexed"][2], out["base"][2])}
    return {"resid": resid, "flags": flags, "fmax": fnum(float(np.abs(out["base"][2].values).max())), "chosen": [out[k][0] for k in ("base", "scaled", "reindexed")]}


@scat.guarded
def run_case(case):
    if case["kind"] == "auto":
        return _run_auto(case)
    cfg, L = case["cfg"], case["L"]
    base = _all(cfg, case["scaling"], case["ckind"])
    sc = _all(scat.scale_config(cfg, L), case["scaling"], case["ckind"])
    ri = _all(scat.reindex_config(cfg), case["scaling"], case["ckind"])
    resid = {}
    for k in base:
        if k == "xsec":
            b = base[k].values
            resid["scale_xsec"] = fnum(max(float(np.abs(sc[k].values[:3] / L ** 2 - b[:3]).max() / b[2]), float(abs(sc[k].values[3] - b[3]))))
            resid["reindex_xsec"] = fnum(max(float(np.abs(ri[k].values[:3] - b[:3]).max() / b[2]), float(abs(ri[k].values[3] - b[3]))))
        else:
            resid["scale_" + k] = relmax(sc[k], base[k])
            resid["reindex_" + k] = relmax(ri[k], base[k])
    if case.get("intunits"):
        # the same numbers as integers of a small unit and as floats: a change of the unit of length *and* of the number type
        PER = 10000
        ci = scat.map_lengths(cfg, lambda v: int(round(v * PER)))
        ok = _int_config_valid(ci)
        if ok:
            as_int = _all(ci, case["scaling"], case["ckind"])
            as_float = _all(scat.map_lengths(ci, float), case["scaling"], case["ckind"])
            back = _all(scat.map_lengths(ci, lambda v: v / PER), case["scaling"], case["ckind"])
            # NumPy's fixed-width integers (what an integer array of nanometres holds) and single-precision floats (F122, F123)
            if max(abs(v) for v in _lengths(ci)) < 2 ** 31:
                as_i32 = _all(scat.map_lengths(ci, np.int32), case["scaling"], case["ckind"])
                for k in as_i32:
                    if k != "xsec":
                        resid["int32type_" + k] = relmax(as_i32[k], as_float[k])
            f32 = scat.map_lengths(cfg, np.float32)
            as_f32 = _all(f32, case["scaling"], case["ckind"])
            as_f32ref = _all(scat.map_lengths(f32, float), case["scaling"], case["ckind"])
            for k in as_f32:
                if k != "xsec":
                    resid["float32type_" + k] = relmax(as_f32[k], as_f32ref[k])
            for k in as_int:
                if k == "xsec":
                    b = as_float[k].values
                    resid["inttype_xsec"] = fnum(max(float(np.abs(as_int[k].values[:3] - b[:3]).max() / b[2]), float(abs(as_int[k].values[3] - b[3]))))
                    resid["intunit_xsec"] = fnum(max(float(np.abs(back[k].values[:3] * PER ** 2 - b[:3]).max() / b[2]), float(abs(back[k].values[3] - b[3]))))
                else:
                    resid["inttype_" + k] = relmax(as_int[k], as_float[k])
                    resid["intunit_" + k] = relmax(back[k], as_float[k])
    th = cfg["theory"]["t"]
    resid = {"%s@%s" % (k, th): v for k, v in resid.items()}
    return {"resid": resid, "flags": {}, "fmax": fnum(float(np.abs(base["field"].values).max())), "int_checked": bool(case.get("intunits") and ok)}


def _lengths(cfg):
    out = []
    scat.map_lengths(cfg, lambda v: out.append(v) or v)
    return out


def _int_config_valid(ci):
    """rounding to the integer unit must not have collapsed anything (a zero radius, two layers of one radius, a zero pixel)"""
    def scat_ok(s):
        t = s["t"]
        if t == "sphere":
            return s["r"] > 0
        if t == "layered":
            return all(b > a > 0 for a, b in zip(s["r"], s["r"][1:])) and s["r"][0] > 0
        if t == "layered_t":
            return all(v > 0 for v in s["th"])
        if t in ("spheres", "scatterers"):
            return all(scat_ok(m) for m in s["members"])
        if t == "spheroid":
            return all(v > 0 for v in s["r"])
        if t == "cylinder":
            return s["h"] > 0 and s["d"] > 0
        return True
    d = ci["det"]
    sp = d.get("spacing", 1)
    return scat_ok(ci["scat"]) and all(v > 0 for v in (sp if isinstance(sp, (list, tuple)) else [sp])) and ci["optics"]["illum_wavelen"] > 0


TOLS = {"Mie": 1e-8, "Tmatrix": 1e-7, "MieLens": 1e-9, "AberratedMieLens": 1e-9, "Lens": 1e-9}


def _tol(case):
    th = case["cfg"]["theory"]
    if th["t"] == "Multisphere":
        # iterative, tolerance-controlled solver: a 1-ulp change of the inputs may change iteration counts / truncation
        return 3 * math.sqrt(th.get("kw", {}).get("qeps1", 1e-5))   # truncation tolerance acts on efficiencies (quadratic in amplitude)
    return TOLS[th["t"]]


def judge(case, obs):
    out = []
    if case["kind"] == "auto":
        for k, v in obs["flags"].items():
            if not v:
                out.append({"mech": "auto.%s" % k, "detail": "chosen (base, scaled, reindexed) = %s; separation %.3g r_max, L=%.6g" % (obs.get("chosen"), case["sep_over_rmax"], case["L"])})
        TOL = 3 * math.sqrt(1e-5) if "Multisphere" in (obs.get("chosen") or []) else 1e-8
        for k, v in obs["resid"].items():
            if not v <= TOL:
                out.append({"mech": "auto.%s" % k.replace("@", "."), "detail": "%s=%.3e > %.0e; chosen=%s separation %.3g r_max L=%.6g" % (k, v, TOL, obs.get("chosen"), case["sep_over_rmax"], case["L"])})
        return out
    TOL = _tol(case)
    exact = math.frexp(case["L"])[0] == 0.5          # a power of two
    for k, v in obs["resid"].items():
        if exact and k.startswith("scale_") and not v <= 1e-10:
            out.append({"mech": "units.%s.exact_binary_rescaling" % k.replace("@", "."),
                        "detail": "%s=%.3e > 1e-10 although L = %r is a power of two; kind=%s theory=%s" % (k, v, case["L"], case["ckind"], case["cfg"]["theory"])})
            continue
        # single-precision lengths carry 6e-8 of relative rounding, which the phase k z (hundreds) multiplies: they must give the same
        # picture to a part in a thousand (and not NaN); everything else is judged to solver accuracy
        if not v <= (max(TOL, 1e-3) if k.startswith("float32type_") else TOL):
            out.append({"mech": "units.%s" % k.replace("@", "."),
                        "detail": "%s=%.3e > %.0e; kind=%s L=%.6g theory=%s det=%s" % (k, v, TOL, case["ckind"], case["L"], case["cfg"]["theory"], case["cfg"]["det"]["t"])})
    return out


def nontrivial(case, obs):
    return obs.get("fmax", 0) > 0
