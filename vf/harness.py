"""Parent-side driver: build overlay(s) -> run workload children -> judge ->
classify against known_findings.json -> write evidence -> verdict.

Exit codes: 0 held on what was observed (KNOWN-FINDING lines allowed),
1 violation (line "VIOLATION property=<id> replay=<path>"), 2 inconclusive.
"""
import argparse
import concurrent.futures as cf
import fnmatch
import hashlib
import importlib
import json
import os
import shutil
import subprocess
import sys
import tempfile
import time

from . import build

VERIF = build.VERIF
PY = build.PY
NCPU = min(16, os.cpu_count() or 4)


def jdump(o):
    return json.dumps(o, sort_keys=True, default=_jdefault)


def _jdefault(o):
    try:
        import numpy as np
        if isinstance(o, np.generic):
            return o.item()
        if isinstance(o, np.ndarray):
            return o.tolist()
    except Exception:
        pass
    if isinstance(o, complex):
        return {"re": o.real, "im": o.imag}
    return repr(o)


def ensure_deps():
    """icontract/deal beside the repo's interpreter, offline, checkout-relative."""
    deps = os.path.join(VERIF, ".deps")
    if os.path.isdir(os.path.join(deps, "icontract")):
        return deps
    os.makedirs(deps, exist_ok=True)
    r = subprocess.run([PY, "-m", "pip", "install", "-q", "--no-index", "--find-links",
                        "/opt/veriftools/wheels", "--target", deps, "icontract", "deal"],
                       stdout=subprocess.PIPE, stderr=subprocess.STDOUT, text=True)
    if r.returncode != 0:
        sys.stderr.write("note: could not install icontract/deal: %s\n" % r.stdout[-500:])
    return deps


def case_fingerprint(case):
    c = {k: v for k, v in case.items() if k not in ("id", "proc", "cost")}

    def rnd(o):
        if isinstance(o, float):
            return float("%.6g" % o)
        if isinstance(o, dict):
            return {k: rnd(v) for k, v in o.items()}
        if isinstance(o, (list, tuple)):
            return [rnd(v) for v in o]
        return o
    return hashlib.sha1(jdump(rnd(c)).encode()).hexdigest()


class ShardResult:
    def __init__(self):
        self.obs = {}         # case id -> record
        self.counters = {}
        self.aliases = {}
        self.reach = {}
        self.stderr_reports = []   # sanitizer report blocks etc.
        self.children = 0
        self.died = 0
        self.hygiene_fail = None


SAN_MARKERS = ("Fortran runtime error", "ERROR: AddressSanitizer", "runtime error:",
               "ERROR: LeakSanitizer", "SUMMARY: UndefinedBehaviorSanitizer",
               "SUMMARY: AddressSanitizer")


def run_shard(prop, shard_cases, overlay, flavour, workdir, tag, seed, tier, case_timeout):
    """Run cases in order in child processes; restart after a dying child."""
    res = ShardResult()
    remaining = list(shard_cases)
    attempt = 0
    while remaining:
        attempt += 1
        shard_path = os.path.join(workdir, "%s_%d.in.json" % (tag, attempt))
        out_path = os.path.join(workdir, "%s_%d.out.jsonl" % (tag, attempt))
        err_path = os.path.join(workdir, "%s_%d.err" % (tag, attempt))
        with open(shard_path, "w") as f:
            json.dump({"prop": prop, "cases": remaining, "seed": seed, "tier": tier,
                       "overlay": overlay, "case_timeout": case_timeout}, f)
        env = dict(os.environ)
        env["PYTHONPATH"] = os.pathsep.join([overlay, VERIF, os.path.join(VERIF, ".deps")])
        env["PYTHONHASHSEED"] = "0"
        env["HOLOPY_VERIF"] = "1"
        env["OMP_NUM_THREADS"] = "1"
        env["OPENBLAS_NUM_THREADS"] = "1"
        env["MKL_NUM_THREADS"] = "1"
        env["MPLBACKEND"] = "Agg"
        env.update(build.san_env(flavour))
        total_to = sum(c.get("timeout", case_timeout) for c in remaining) + 120
        res.children += 1
        with open(err_path, "w") as ef:
            try:
                p = subprocess.run([PY, "-m", "vf.child", shard_path, out_path],
                                   stdout=ef, stderr=subprocess.STDOUT, env=env,
                                   cwd=workdir, timeout=total_to)
                rc = p.returncode
            except subprocess.TimeoutExpired:
                rc = -999
        begun = None
        done_ids = set()
        finished = False
        if os.path.exists(out_path):
            with open(out_path) as f:
                for line in f:
                    try:
                        rec = json.loads(line)
                    except ValueError:
                        continue
                    ev = rec.get("ev")
                    if ev == "BEGIN":
                        begun = rec["id"]
                    elif ev == "END":
                        res.obs[rec["id"]] = rec
                        done_ids.add(rec["id"])
                        begun = None
                    elif ev == "TIMEOUT":
                        res.obs[rec["id"]] = {"id": rec["id"], "timeout": True}
                        done_ids.add(rec["id"])
                        begun = None
                    elif ev == "HYGIENE":
                        res.hygiene_fail = rec.get("msg")
                    elif ev == "DONE":
                        finished = True
                        for k, v in rec.get("counters", {}).items():
                            res.counters[k] = res.counters.get(k, 0) + v
                        for k, v in rec.get("aliases", {}).items():
                            res.aliases[k] = max(res.aliases.get(k, 0), v)
                        for k, v in rec.get("reach", {}).items():
                            res.reach[k] = res.reach.get(k, 0) + v
        try:
            with open(err_path, errors="replace") as f:
                err = f.read()
        except OSError:
            err = ""
        if res.hygiene_fail:
            return res
        blocks = [ln for ln in err.splitlines() if any(m in ln for m in SAN_MARKERS)]
        if blocks:
            res.stderr_reports.append({"tag": tag, "attempt": attempt, "during": begun,
                                       "lines": blocks[:20], "n": len(blocks)})
        if begun is not None:
            # child vanished between BEGIN and END of case `begun`
            res.died += 1
            stop = ""
            if "VERIF-FORTRAN-STOP" in err:
                i = err.rfind("VERIF-FORTRAN-STOP kind")
                stop = err[i:i + 3000]
            res.obs[begun] = {"id": begun, "terminated": True, "rc": rc,
                              "stderr_tail": err[-1500:], "stop_block": stop,
                              "watchdog": rc == -999}
            done_ids.add(begun)
        elif not finished:
            # died outside any case (import error...), do not loop forever
            for c in remaining:
                if c["id"] not in done_ids:
                    res.obs[c["id"]] = {"id": c["id"], "harness_error": "child exited rc=%s outside a case: %s" % (rc, err[-1500:])}
            return res
        remaining = [c for c in remaining if c["id"] not in done_ids]
        if attempt > len(shard_cases) + 2:
            break
    return res


def make_shards(cases, njobs):
    """cases with the same 'proc' stay together, in order; the rest are spread
    greedily by cost."""
    groups = {}
    free = []
    for c in cases:
        if c.get("proc") is not None:
            groups.setdefault((c.get("flavour", "opt"), "p:" + str(c["proc"])), []).append(c)
        else:
            free.append(c)
    shards = []  # (flavour, [cases])
    for (fl, _), cs in groups.items():
        shards.append((fl, cs))
    byfl = {}
    for c in free:
        byfl.setdefault(c.get("flavour", "opt"), []).append(c)
    for fl, cs in byfl.items():
        n = max(1, min(njobs, len(cs)))
        bins = [[] for _ in range(n)]
        loads = [0.0] * n
        # equal-cost cases are dealt out in a hashed (deterministic, id-derived) order, not in generation order: generators
        # cycle through kinds with small periods (i % 2, i % 4, ...) and a round-robin deal over 16 children would give
        # every child one residue class only -- a child must see a MIX of kinds so that state leaking from one
        # calculation / object construction into the next (class-level or module-level state) is exercised
        hk = lambda c: hashlib.sha1(str(c["id"]).encode()).hexdigest()
        for c in sorted(cs, key=lambda c: (-c.get("cost", 1.0), hk(c))):
            i = loads.index(min(loads))
            bins[i].append(c)
            loads[i] += c.get("cost", 1.0)
        for b in bins:
            if b:
                b.sort(key=hk)
                shards.append((fl, b))
    return shards


def _short(d):
    d = d.strip()
    if d.startswith("Traceback") or len(d) > 500:
        d = "... " + d[-420:]
    return d.replace("\n", " | ")


def load_known():
    p = os.path.join(VERIF, "known_findings.json")
    if not os.path.exists(p):
        return []
    with open(p) as f:
        return json.load(f).get("findings", [])


def classify(prop, violations, known):
    """Split violations into (new, known-hit dict key->list)."""
    new, hits = [], {}
    for v in violations:
        k = None
        for ent in known:
            if ent.get("property") == prop and ent.get("status") == "known" \
                    and fnmatch.fnmatchcase(v["mech"], ent["key"]):
                k = ent
                break
        if k is None:
            new.append(v)
        else:
            hits.setdefault(k["key"], {"entry": k, "n": 0, "example": v})["n"] += 1
    return new, hits


def run(prop, tier, seed, replay=None, jobs=None, keep=False):
    t0 = time.time()
    P = importlib.import_module("vf.props." + prop.lower())
    jobs = jobs or NCPU
    ensure_deps()
    if replay:
        with open(replay) as f:
            rp = json.load(f)
        cases = rp["cases"] if "cases" in rp else [rp["case"]]
        if rp.get("sequence"):
            # the recorded child-process history up to the violating case: replay it in one child, in that order
            for c in cases:
                c.setdefault("proc", "__replay__")
        seed = rp.get("seed", seed)
        tier = rp.get("tier", tier)
    else:
        cases = P.cases(tier, seed)
    ids = [c["id"] for c in cases]
    assert len(set(ids)) == len(ids), "duplicate case ids"
    flavours = sorted({c.get("flavour", "opt") for c in cases})
    overlays = {}
    try:
        for fl in flavours:
            overlays[fl] = build.make_overlay(fl)
    except Exception as e:
        print("INCONCLUSIVE property=%s reason=build-failed: %s" % (prop, str(e)[-2000:]))
        return 2
    workdir = tempfile.mkdtemp(prefix="vf_run_%s_" % prop)
    case_timeout = getattr(P, "CASE_TIMEOUT", 300)
    try:
        shards = make_shards(cases, jobs)
        shard_of = {}
        for _, cs in shards:
            seq = [c["id"] for c in cs]
            for c in cs:
                shard_of[c["id"]] = seq
        results = []
        with cf.ThreadPoolExecutor(jobs) as ex:
            futs = [ex.submit(run_shard, prop, cs, overlays[fl], fl, workdir,
                              "s%03d" % i, seed, tier, case_timeout)
                    for i, (fl, cs) in enumerate(shards)]
            for f in futs:
                results.append(f.result())
    finally:
        if not keep:
            shutil.rmtree(workdir, ignore_errors=True)
    obs, counters, aliases, reach, reports = {}, {}, {}, {}, []
    children = died = 0
    for r in results:
        if r.hygiene_fail:
            print("INCONCLUSIVE property=%s reason=import-hygiene: %s" % (prop, r.hygiene_fail))
            return 2
        obs.update(r.obs)
        for k, v in r.counters.items():
            counters[k] = counters.get(k, 0) + v
        for k, v in r.aliases.items():
            aliases[k] = max(aliases.get(k, 0), v)
        for k, v in r.reach.items():
            reach[k] = reach.get(k, 0) + v
        reports += r.stderr_reports
        children += r.children
        died += r.died

    # ---- judge
    violations = []
    timeouts = harness_errors = 0
    executed = 0
    for c in cases:
        o = obs.get(c["id"])
        if o is None:
            harness_errors += 1
            continue
        if o.get("timeout") or o.get("watchdog"):
            timeouts += 1
            continue
        if o.get("harness_error"):
            harness_errors += 1
            sys.stderr.write("harness error in case %s: %s\n" % (c["id"], o["harness_error"][-1500:]))
            continue
        executed += 1
        vs = []
        if isinstance(o.get("obs"), dict) and o["obs"].get("skipped"):
            continue
        if o.get("terminated"):
            vs += P.judge_terminated(c, o) if hasattr(P, "judge_terminated") else \
                [{"mech": "interpreter_terminated", "detail": "rc=%s %s" % (o.get("rc"), o.get("stderr_tail", "")[-600:])}]
        else:
            allow = set(c.get("allow_events", []))
            for ev in o.get("mon", []):
                nm = ev.get("name", "")
                if nm.startswith("contract.") and not any(fnmatch.fnmatchcase(nm, a) for a in allow):
                    vs.append({"mech": nm, "detail": jdump(ev)[:600]})
                elif nm.startswith("monitor."):
                    sys.stderr.write("monitor problem in %s: %s\n" % (c["id"], jdump(ev)[:400]))
            if o.get("exception"):
                vs += P.judge_exception(c, o) if hasattr(P, "judge_exception") else \
                    [{"mech": "exception.%s" % o["exception"]["type"], "detail": o["exception"]["tb"][-1200:]}]
            else:
                vs += P.judge(c, o.get("obs")) or []
        for v in vs:
            v["case"] = c["id"]
        violations += vs
    if hasattr(P, "judge_global"):
        violations += P.judge_global(cases, {k: v for k, v in obs.items()}) or []
    for rep in reports:
        violations.append({"mech": "sanitizer_report", "case": rep.get("during"),
                           "detail": "; ".join(rep["lines"][:5])})

    known = load_known()
    new, hits = classify(prop, violations, known)

    # ---- evidence
    nontriv = set()
    skipped = {}
    samples = []
    resid = {}
    for c in cases:
        o = obs.get(c["id"])
        if not o or "obs" not in o or o.get("exception"):
            continue
        ob = o["obs"]
        nt = P.nontrivial(c, ob) if hasattr(P, "nontrivial") else True
        if isinstance(ob, dict) and ob.get("skipped"):
            skipped[ob["skipped"]] = skipped.get(ob["skipped"], 0) + 1
            nt = False
        if nt:
            nontriv.add(case_fingerprint(c))
        if isinstance(ob, dict):
            for k, v in (ob.get("resid") or {}).items():
                if isinstance(v, (int, float)) and v == v:
                    resid.setdefault(k, []).append(float(v))
    step = max(1, len(cases) // 6)
    for c in cases[::step][:6]:
        o = obs.get(c["id"], {})
        ob = o.get("obs")
        s = {"case": c}
        if isinstance(ob, dict):
            s["observed"] = {k: ob[k] for k in list(ob)[:12] if k != "big"}
        samples.append(json.loads(jdump(s)))
    resid_summary = {}
    for k, vals in resid.items():
        vals.sort()
        resid_summary[k] = {"n": len(vals), "max": vals[-1],
                            "p99": vals[min(len(vals) - 1, int(0.99 * len(vals)))],
                            "median": vals[len(vals) // 2]}
    required = getattr(P, "REQUIRED_COUNTERS", [])
    missing = [k for k in required if counters.get(k, 0) == 0]
    req_reach = getattr(P, "REQUIRED_REACH", [])
    unreached = [k for k in req_reach if reach.get(k, 0) == 0]
    extra = P.evidence_extra(cases, obs) if hasattr(P, "evidence_extra") else {}
    wall = time.time() - t0
    ev = {
        "property_id": prop, "tier": tier, "seed": int(seed), "level": "exploration",
        "coverage": dict({
            "evaluations": executed,
            "distinct_nontrivial": len(nontriv),
            "rule": getattr(P, "RULE", ""),
            "samples": samples,
            "exhaustive": False,
            "monitor_calls": counters,
            "monitor_aliases_rebound": aliases,
            "anchors_reached": reach,
            "anchors_unreached": unreached,
            "residuals": resid_summary,
            "children_started": children,
            "children_died": died,
            "sanitizer_report_blocks": sum(r["n"] for r in reports),
            "build_flavours": flavours,
            "timeouts": timeouts,
            "harness_errors": harness_errors,
            "known_findings_hit": {k: h["n"] for k, h in hits.items()},
            "skipped_cases": skipped,
        }, **extra),
        "assumptions": getattr(P, "ASSUMPTIONS", []),
        "wall_s": round(wall, 2),
        "violations": len(new),
    }
    if not replay and not os.environ.get("VF_NO_EVIDENCE"):
        os.makedirs(os.path.join(VERIF, "evidence"), exist_ok=True)
        with open(os.path.join(VERIF, "evidence", prop + ".json"), "w") as f:
            json.dump(ev, f, indent=1, sort_keys=True, default=_jdefault)

    # ---- verdict
    print("property=%s tier=%s seed=%s cases=%d executed=%d distinct_nontrivial=%d timeouts=%d died=%d wall=%.1fs"
          % (prop, tier, seed, len(cases), executed, len(nontriv), timeouts, died, wall))
    print("monitor calls:", jdump(counters))
    if resid_summary:
        print("residual maxima:", jdump({k: v["max"] for k, v in resid_summary.items()}))
    for k, h in sorted(hits.items()):
        print("KNOWN-FINDING: property=%s %s [key=%s, %d occurrence(s) this run, e.g. case %s]"
              % (prop, h["entry"]["what"], k, h["n"], h["example"].get("case")))
    if new:
        rdir = os.path.join(VERIF, "replays", prop)
        os.makedirs(rdir, exist_ok=True)
        byid = {c["id"]: c for c in cases}
        shown = set()
        permech = {}
        for v in new:
            key = (v["mech"], v.get("case"))
            if key in shown:
                continue
            if permech.get(v["mech"], 0) >= 8:
                continue          # at most 8 replay files (3 printed) per violation mechanism, every mechanism represented
            shown.add(key)
            cid = v.get("case")
            path = os.path.join(rdir, "%s.json" % (str(cid).replace("/", "_") if cid else "global"))
            grp = v.get("cases") or ([cid] if cid else [])
            sequence = False
            if not v.get("cases") and cid in byid and byid[cid].get("proc") is None and not replay:
                # what ran before this case in the same child process may matter (state kept between calls)
                seq = shard_of.get(cid, [cid])
                grp = seq[:seq.index(cid) + 1]
                sequence = len(grp) > 1
            with open(path, "w") as f:
                json.dump({"property": prop, "seed": seed, "tier": tier, "sequence": sequence,
                           "cases": [byid[i] for i in grp if i in byid],
                           "violation": v, "observed": json.loads(jdump(obs.get(cid, {})))}, f, indent=1, default=_jdefault)
            permech[v["mech"]] = permech.get(v["mech"], 0) + 1
            if permech[v["mech"]] <= 3 and len(permech) <= 60:
                print("  witness: mech=%s case=%s %s" % (v["mech"], cid, _short(str(v.get("detail", "")))))
                print("VIOLATION property=%s replay=%s" % (prop, path))
        print("%d violation(s), %d distinct mechanism(s): %s" % (len(new), len(permech), ", ".join(sorted(permech))[:1500]))
        return 1
    reasons = []
    if missing and not replay:
        reasons.append("deciding monitors never evaluated: %s" % missing)
    if unreached:
        reasons.append("anchors never reached: %s" % unreached)
    if harness_errors:
        reasons.append("%d harness errors" % harness_errors)
    if timeouts > 0.05 * max(1, len(cases)):
        reasons.append("%d/%d cases timed out" % (timeouts, len(cases)))
    if sum(skipped.values()) > 0.2 * max(1, len(cases)):
        reasons.append("%d/%d cases skipped: %s" % (sum(skipped.values()), len(cases), skipped))
    if not replay and len(nontriv) < getattr(P, "MIN_NONTRIVIAL", 2):
        reasons.append("too few non-trivial cases (%d)" % len(nontriv))
    if reasons:
        print("INCONCLUSIVE property=%s reason=%s" % (prop, "; ".join(reasons)))
        return 2
    print("HELD property=%s on %d executions" % (prop, executed))
    return 0


def main(argv=None):
    ap = argparse.ArgumentParser()
    ap.add_argument("prop")
    ap.add_argument("--tier", default=os.environ.get("VERIF_TIER", "quick"), choices=["quick", "thorough"])
    ap.add_argument("--seed", type=int, default=int(os.environ.get("VERIF_SEED", "0")))
    ap.add_argument("--replay")
    ap.add_argument("--jobs", type=int)
    ap.add_argument("--keep", action="store_true")
    a = ap.parse_args(argv)
    return run(a.prop.upper(), a.tier, a.seed, a.replay, a.jobs, a.keep)


if __name__ == "__main__":
    sys.exit(main())
