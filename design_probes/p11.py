import numpy as np, holopy as hp, warnings, sys, time, traceback, yaml
warnings.simplefilter('ignore')
from holopy.scattering import *
from holopy.inference import prior, AlphaModel, ExactModel
n=prior.Uniform(1.4,1.7,name='n'); r=prior.Gaussian(.5,.05)
s1=Sphere(n=n,r=r,center=[prior.Uniform(0,2),1.0,prior.Uniform(5,9)])
s2=Sphere(n=n,r=prior.Gaussian(.5,.05),center=[prior.Uniform(0,2),2.0,prior.Uniform(5,9)])
m=AlphaModel(Spheres([s1,s2]),alpha=prior.Uniform(.5,1),noise_sd=.1,medium_index=1.33,illum_wavelen={'red':.66,'green':prior.Uniform(.5,.55)},illum_polarization=(1,0),theory=Mie())
print(m._parameter_names); print(m._maps)
vals=list(np.arange(len(m._parameters))+10.0)
sc=m.scatterer_from_parameters(vals); print(sc)
print(m.scatterer_from_parameters(dict(zip(m._parameter_names,vals)))==sc)
print(m.initial_guess_scatterer)
m.add_tie(['0:r','1:r'],'rr'); print(m._parameter_names, m._maps['scatterer'])
print(m.scatterer_from_parameters(list(np.arange(len(m._parameters))+10.0)))
m.add_tie(['0:center.2','1:center.2']); print(m._parameter_names); print(m._maps['optics'], m._maps['model'])
s=yaml.dump(m,default_flow_style=True); m2=yaml.load(s,Loader=yaml.FullLoader); print(m2._parameter_names==m._parameter_names, m2._maps==m._maps, yaml.dump(m2,default_flow_style=True)==s)
# transformed
base=prior.Uniform(.3,.6,name='rb')
s3=Sphere(n=prior.ComplexPrior(prior.Uniform(1.4,1.7),prior.Uniform(0,.1)),r=base*2+0.1,center=[1,2,prior.Uniform(5,9)])
m3=ExactModel(s3,noise_sd=.1,medium_index=1.33,illum_wavelen=.66,illum_polarization=(1,0),theory=MieLens(prior.Uniform(.5,1.1)))
print(m3._parameter_names, m3._maps); v=[1.5,.05,.4,7.,.9]; print(m3.scatterer_from_parameters(v), m3.theory_from_parameters(v))
# same-name collisions
s4=Spheres([Sphere(n=prior.Uniform(1,2,name='a'),r=prior.Uniform(.1,1,name='a'),center=[prior.Uniform(0,1,name='a'),0,5]),Sphere(n=1.5,r=prior.Uniform(.1,1,name='a_0'),center=[0,0,8])])
m4=AlphaModel(s4,noise_sd=.1,theory=Mie()); print(m4._parameter_names)
rc=RigidCluster(Spheres([Sphere(n=1.5,r=.5,center=(0,0,0)),Sphere(n=1.5,r=.5,center=(1.1,0,0))]),translation=[prior.Uniform(0,2),1,prior.Uniform(5,9)],rotation=[prior.Uniform(0,3),0,0])
m5=AlphaModel(rc,noise_sd=.1,theory=Mie()); print(m5._parameter_names); print(m5.scatterer_from_parameters([1.,7.,.5]))
