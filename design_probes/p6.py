import numpy as np, holopy as hp, warnings, sys, time
warnings.simplefilter('ignore')
from holopy.scattering import *
def rel(a,b):
    a=getattr(a,'values',a); b=getattr(b,'values',b)
    return float(np.abs(a-b).max()/max(np.abs(b).max(),1e-300))
rng=np.random.default_rng(0)
xs=rng.uniform(-2,2,40); ys=rng.uniform(-2,2,40)
for mkS in [lambda rot: Spheroid(n=1.59,r=(.3,.6),center=(0,0,6),rotation=rot), lambda rot: Cylinder(n=1.59,h=.8,d=.5,center=(0,0,6),rotation=rot), lambda rot: Spheroid(n=1.59,r=(.6,.3),center=(0,0,6),rotation=rot)]:
    al,be,ga=0.3,0.7,0.4
    base=calc_holo(hp.detector_points(x=xs,y=ys,z=0.),mkS((al,be,ga)),1.33,.66,(1,0),theory=Tmatrix())
    # spin about own axis: rotation[0] (first z rotation about body axis)?
    spin=calc_holo(hp.detector_points(x=xs,y=ys,z=0.),mkS((al+1.234,be,ga)),1.33,.66,(1,0),theory=Tmatrix())
    # reverse axis: beta -> beta+pi
    rev=calc_holo(hp.detector_points(x=xs,y=ys,z=0.),mkS((al,be,ga)),1.33,.66,(1,0),theory=Tmatrix())
    rev2=calc_holo(hp.detector_points(x=xs,y=ys,z=0.),mkS((al,np.pi-be,ga+np.pi)),1.33,.66,(1,0),theory=Tmatrix())
    # rotate 180 about z: gamma+pi, points negated
    r180=calc_holo(hp.detector_points(x=-xs,y=-ys,z=0.),mkS((al,be,ga+np.pi)),1.33,.66,(1,0),theory=Tmatrix())
    # mirror y->-y : axis direction (sinb cosg, sinb sing, cosb) -> g -> -g
    mir=calc_holo(hp.detector_points(x=xs,y=-ys,z=0.),mkS((al,be,2*np.pi-ga)),1.33,.66,(1,0),theory=Tmatrix())
    mirx=calc_holo(hp.detector_points(x=-xs,y=ys,z=0.),mkS((al,be,np.pi-ga)),1.33,.66,(1,0),theory=Tmatrix())
    print("spin %.1e rev(b+pi) %.1e rev2 %.1e rot180 %.1e mirror_y %.1e mirror_x %.1e"%(rel(spin,base),rel(rev,base),rel(rev2,base),rel(r180,base),rel(mir,base),rel(mirx,base)), float(base.max()))
# equal-axes spheroid vs sphere
d=hp.detector_points(x=xs,y=ys,z=0.)
a=calc_holo(d,Spheroid(n=1.59,r=(.5,.5),center=(0,0,6),rotation=(0,.3,.2)),1.33,.66,(1,0),theory=Tmatrix()); b=calc_holo(d,Sphere(n=1.59,r=.5,center=(0,0,6)),1.33,.66,(1,0),theory=Tmatrix())
print("spheroid(equal) vs sphere", rel(a,b))
