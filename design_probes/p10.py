import numpy as np, holopy as hp, warnings, sys, time, traceback
import xarray as xr
warnings.simplefilter('ignore')
from holopy.scattering import *
from holopy.core.metadata import make_subset_data, detector_points, detector_grid, update_metadata
def rel(a,b):
    a=getattr(a,'values',a); b=getattr(b,'values',b)
    return float(np.abs(a-b).max()/max(np.abs(b).max(),1e-300))
det=hp.detector_grid((7,9),(.2,.3))
sp=[Sphere(n=1.59,r=.5,center=(1,1,8)),Sphere(n=(1.45,1.4),r=(.2,.3),center=(1.9,1.2,8.3)),Sphere(n=1.7,r=.4,center=(.9,2.0,7.6))]
print("== C06 superposition / pol linearity")
for th in [Mie(), MieLens(.9)]:
    if isinstance(th,MieLens): sp[1]=Sphere(n=1.45,r=.3,center=(1.9,1.2,8.3))
    tot=calc_field(det,Spheres(sp),1.33,.66,(1,0),theory=th); parts=sum(calc_field(det,s,1.33,.66,(1,0),theory=th) for s in sp)
    print(type(th).__name__, "superposition", rel(tot,parts))
    a,b=2.0,-3.7
    fx=calc_field(det,sp[0],1.33,.66,(1,0),theory=th); fy=calc_field(det,sp[0],1.33,.66,(0,1),theory=th); fab=calc_field(det,sp[0],1.33,.66,(a,b),theory=th)
    print("   pol linearity", rel(fab,(a*fx+b*fy)/np.hypot(a,b)))
print("== multi-channel")
try:
    d2=hp.detector_grid((7,9),(.2,.3),extra_dims={'illumination':['red','green']})
    wl={'red':.66,'green':.52}; pol={'red':(1,0),'green':(0,1)}
    s2=Sphere(n={'red':1.58,'green':1.60},r=.5,center=(1,1,8))
    h=calc_holo(d2,s2,1.33,wl,pol,scaling={'red':.8,'green':.9})
    print(h.dims,h.shape)
    for c,n_ in [('red',1.58),('green',1.60)]:
        h1=calc_holo(det,Sphere(n=n_,r=.5,center=(1,1,8)),1.33,wl[c],pol[c],scaling={'red':.8,'green':.9}[c])
        print("  channel",c,rel(h.sel(illumination=c).transpose(*h1.dims),h1))
    # xarray-valued
    wlx=xr.DataArray([.52,.66],dims='illumination',coords={'illumination':['green','red']})
    h3=calc_holo(d2,s2,1.33,wlx,pol,scaling={'red':.8,'green':.9}); print("  label alignment", rel(h3.sel(illumination='red'),h.sel(illumination='red')), list(h3.illumination.values))
except Exception as e: traceback.print_exc()
print("== C07 grid vs points vs subset")
s=sp[0]
for th in [Mie(),Multisphere(),Tmatrix(),MieLens(.9)]:
    hg=calc_holo(det,s,1.33,.66,(1,0),theory=th)
    X,Y=np.meshgrid(det.x.values,det.y.values,indexing='ij')
    hpnt=calc_holo(detector_points(x=X.ravel(),y=Y.ravel(),z=0.),s,1.33,.66,(1,0),theory=th)
    img=update_metadata(hg,noise_sd=.1)
    sub,sel=make_subset_data(img,pixels=17,return_selection=True,seed=5)
    hs=calc_holo(sub,s,1.33,.66,(1,0),theory=th)
    crop=det.isel(x=slice(2,6),y=slice(3,8)); hc=calc_holo(crop,s,1.33,.66,(1,0),theory=th)
    print(type(th).__name__,"points",rel(hpnt.values,hg.values.ravel()),"subset vs sel", rel(hs.values, hg.values.ravel()[sel]), "subset data kept", np.array_equal(sub.values, img.values.ravel()[sel]), "crop", rel(hc.values, hg.isel(x=slice(2,6),y=slice(3,8)).values), hs.dims, sub.attrs.keys())
sub2=make_subset_data(img,pixels=17,seed=5); print("repro", np.array_equal(sub2.values,sub.values), len(set(sel))==17, 'original_dims' in img.attrs)
