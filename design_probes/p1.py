import numpy as np, holopy as hp, time, warnings
warnings.simplefilter('ignore')
from holopy.scattering import *
from holopy.scattering.theory import Lens
def rel(a,b):
    a=getattr(a,'values',a); b=getattr(b,'values',b)
    return float(np.abs(a-b).max()/max(np.abs(b).max(),1e-300))
rng=np.random.default_rng(3)
# C01: identity + history independence
det = hp.detector_grid(shape=(9,11), spacing=(.11,.13))
cases = [
 (Sphere(n=1.59, r=.5, center=(0.5,0.6,7)), Mie()),
 (Sphere(n=(1.59,1.42), r=(.3,.5), center=(0.5,0.6,7)), Mie()),
 (Spheres([Sphere(n=1.59, r=.5, center=(0.5,0.6,7)), Sphere(n=1.45, r=.4, center=(1.6,0.6,7.5))]), Mie()),
 (Spheres([Sphere(n=1.59, r=.5, center=(0.5,0.6,7)), Sphere(n=1.45, r=.4, center=(1.6,0.6,7.5))]), Multisphere()),
 (Spheroid(n=1.59, r=(.4,.6), center=(0.5,0.6,7), rotation=(0,.3,.2)), Tmatrix()),
 (Cylinder(n=1.59, h=.6, d=.5, center=(0.5,0.6,7), rotation=(0,.3,.2)), Tmatrix()),
 (Sphere(n=1.59, r=.5, center=(0.5,0.6,7)), MieLens(0.9)),
 (Sphere(n=1.59, r=.5, center=(0.5,0.6,7)), Lens(0.9, Mie(), 40, 40)),
]
def run(i, scaling=0.7, pol=(1,0)):
    s,th = cases[i]
    if isinstance(th,Tmatrix): pol=(1,0)
    f = calc_field(det, s, 1.33, .66, pol, theory=th)
    h = calc_holo(det, s, 1.33, .66, pol, theory=th, scaling=scaling)
    I = calc_intensity(det, s, 1.33, .66, pol, theory=th)
    return f,h,I
base = {}
for i in range(len(cases)):
    pol=(np.cos(.4),np.sin(.4))
    f,h,I = run(i, pol=pol)
    p = np.array([1,0]) if isinstance(cases[i][1],Tmatrix) else np.array(pol)
    fx = f.sel(vector='x').values; fy=f.sel(vector='y').values
    ref = np.abs(0.7*fx+p[0])**2+np.abs(0.7*fy+p[1])**2
    ref = ref.reshape(h.shape) if ref.shape!=h.shape else ref
    print(type(cases[i][0]).__name__, type(cases[i][1]).__name__, "holo id", rel(h.transpose(*f.sel(vector='x').dims),ref), "int id", rel(I.transpose(*f.sel(vector='x').dims), np.abs(fx)**2+np.abs(fy)**2), h.dims, h.shape, np.isfinite(h.values).all(), np.array_equal(h.x,det.x), h.attrs['illum_wavelen'], h.name)
    base[i]=h.values.copy()
    h0 = calc_holo(det, cases[i][0], 1.33, .66, p, theory=cases[i][1], scaling=0)
    print("   scaling0 exact 1:", float(np.abs(h0.values-1).max()))
# history: run in random orders, compare bitwise
bad=0
for rep in range(3):
    order = rng.permutation(len(cases))
    for i in order:
        f,h,I = run(i, pol=(np.cos(.4),np.sin(.4)))
        if not np.array_equal(h.values, base[i]): bad+=1; print("history diff", i, np.abs(h.values-base[i]).max())
print("history mismatches", bad)
