import numpy as np, holopy as hp, warnings, sys, time, json
warnings.simplefilter('ignore')
from holopy.scattering import *
case=json.loads(sys.argv[1])
det=hp.detector_points(x=np.linspace(-2,2,5),y=np.linspace(-1,3,5),z=0.)
k=2*np.pi*1.33/.66
t=time.time()
try:
    if case['kind']=='spheroid': s=Spheroid(n=case['n'],r=(case['x']/k,case['x']/k*case['ar']),center=(0,0,20),rotation=tuple(case['rot']))
    elif case['kind']=='cyl': s=Cylinder(n=case['n'],d=2*case['x']/k,h=2*case['x']/k*case['ar'],center=(0,0,20),rotation=tuple(case['rot']))
    else: s=Sphere(n=case['n'],r=case['x']/k,center=(0,0,20))
    h=calc_holo(det,s,1.33,.66,(1,0),theory=Tmatrix())
    print("RET finite=%s %.1fs"%(bool(np.isfinite(h.values).all()),time.time()-t))
except BaseException as e:
    print("EXC %s %.1fs %s"%(type(e).__name__,time.time()-t,str(e)[:80]))
