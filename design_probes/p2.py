import numpy as np, holopy as hp, warnings, sys
sys.path.insert(0,'/tmp/fb/probe'); import refmie
warnings.simplefilter('ignore')
from holopy.scattering import *
from holopy.scattering.theory.mielensfunctions import MieScatteringMatrix
rng=np.random.default_rng(0)
theta=np.linspace(0.01,3.1,40)
pts=hp.detector_points(theta=theta, phi=0*theta+0.3)
for x in [1e-3,1e-2,0.1,1,5,20,60,150,400,900]:
  for m in [1.2, 0.8, 1.59+0.01j, 2.5+0.5j, 1.05]:
    k=2*np.pi*1.33/.66; r=x/k; n=m*1.33
    s=Sphere(n=n,r=r,center=(0,0,0))
    try:
        S=calc_scat_matrix(pts,s,1.33,.66,theory=Mie()).values  # [pt, Eout, Ein]
    except Exception as e:
        print(x,m,"Mie EXC",type(e).__name__,e); continue
    S1r,S2r=refmie.S12(m,x,theta)
    e2=np.abs(S[:,0,0]-S2r).max()/np.abs(S2r).max(); e1=np.abs(S[:,1,1]-S1r).max()/np.abs(S1r).max()
    off=np.abs(S[:,0,1]).max()+np.abs(S[:,1,0]).max()
    cs=calc_cross_sections(s,1.33,.66,(1,0)).values; qsca,qext,g=refmie.qs(m,x)
    geo=np.pi*r**2
    ecs=[abs(cs[0]/geo-qsca)/qsca, abs(cs[2]/geo-qext)/qext, abs(cs[3]-g)]
    # forward optical theorem from holopy's own S
    S0=calc_scat_matrix(hp.detector_points(theta=0.,phi=0.),s,1.33,.66,theory=Mie()).values[0]
    ot=4*np.pi/k**2*S0[0,0].real
    # MieScatteringMatrix (pure python)
    try:
        if x<=300 and np.isreal(m):
            sp=MieScatteringMatrix('perpendicular',m,x)(theta); pl=MieScatteringMatrix('parallel',m,x)(theta)
            e3=max(np.abs(np.conj(sp)-S1r).max()/np.abs(S1r).max(), np.abs(np.conj(pl)-S2r).max()/np.abs(S2r).max())
        else: e3=np.nan
    except Exception as e: e3=str(e)[:40]
    print("x=%g m=%s S1 %.1e S2 %.1e off %.1e | Qsca %.1e Qext %.1e g %.1e | OT %.1e cabs %.3e | pyMie %s"%(x,m,e1,e2,off,*ecs,abs(ot-cs[2])/cs[2],cs[1]/cs[2],e3))
