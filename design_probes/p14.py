import numpy as np, holopy as hp, warnings, sys
from holopy.scattering import *
from holopy.scattering.scatterer.csg import Union, Difference, Intersection
from holopy.scattering.errors import OverlapWarning, InvalidScatterer
rng=np.random.default_rng(0)
P=rng.uniform(-2,2,size=(20000,3))
s=Sphere(n=(1.5,1.4,1.3),r=(.4,.7,1.1),center=(.2,-.1,.3))
d=np.linalg.norm(P-np.array(s.center),axis=1); exp=np.where(d<.4,1,np.where(d<.7,2,np.where(d<1.1,3,0)))
print("layered in_domain", np.array_equal(s.in_domain(P),exp), np.array_equal(s.index_at(P), np.array([0,1.5,1.4,1.3])[exp]), s.bounds)
e=Ellipsoid(n=1.5,r=(.5,.8,1.2),center=(.2,-.1,.3)); exp=(((P-np.array(e.center))/np.array(e.r))**2).sum(1)<1
print("ellipsoid", np.array_equal(e.contains(P),exp), e.bounds)
a=Sphere(n=1.5,r=1.,center=(0,0,0)); b=Sphere(n=1.5,r=.8,center=(.7,0,0)); ia=np.linalg.norm(P,axis=1)<1; ib=np.linalg.norm(P-[.7,0,0],axis=1)<.8
for C,ex in [(Union,ia|ib),(Difference,ia&~ib),(Intersection,ia&ib)]:
    c=C(a,b); print(C.__name__, np.array_equal(c.contains(P),ex), c.bounds, np.array_equal(c.translated(1,2,3).contains(P+[1,2,3]),ex) )
v=a.voxelate(.05); print("voxel vol", (v>0).sum()*.05**3, 4/3*np.pi)
for args in [dict(n=1.5,r=-1,center=(0,0,0)), dict(n=1.5,r=(.5,-1),center=(0,0,0)), dict(n=1.5,r=1,center=(0,0)), dict(n=1.5,r=1,center=5)]:
    try: Sphere(**args); print(args,"accepted")
    except Exception as ex: print(args,type(ex).__name__)
try: Spheres([a,e]); print("accepted")
except Exception as ex: print("Spheres w/ ellipsoid", type(ex).__name__)
with warnings.catch_warnings(record=True) as w:
    warnings.simplefilter('always'); S=Spheres([a,b,Sphere(n=1.5,r=.1,center=(5,5,5))]); print("warn", [type(x.message).__name__ for x in w], S.overlaps, S.largest_overlap())
with warnings.catch_warnings(record=True) as w:
    warnings.simplefilter('always'); S=Spheres([a,b],warn=False); print("nowarn", len(w))
with warnings.catch_warnings(record=True) as w:
    warnings.simplefilter('always'); S=Spheres([a,Sphere(n=1.5,r=.5,center=(1.5,0,0))]); print("touching", len(w), S.overlaps, S.largest_overlap())
S=Spheres([a,Sphere(n=1.5,r=.5,center=(3,0,0))]); print("separate largest_overlap", S.largest_overlap())
