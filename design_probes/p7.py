import numpy as np, holopy as hp, warnings, sys, time
warnings.simplefilter('ignore')
from holopy.scattering import *
from holopy.scattering.theory import Lens
def rel(a,b):
    a=getattr(a,'values',a); b=getattr(b,'values',b)
    return float(np.abs(a-b).max()/max(np.abs(b).max(),1e-300))
k=2*np.pi*1.33/.66
print("== C03 multisphere xsec one sphere")
for x in [0.05,1,5,15]:
    s=Sphere(n=1.59+0.02j,r=x/k,center=(0,0,0))
    a=calc_cross_sections(s,1.33,.66,(1,0),theory=Mie()).values; b=calc_cross_sections(s,1.33,.66,(np.cos(.3),np.sin(.3)),theory=Multisphere()).values
    print(x, (b-a)/np.array([a[0],a[2],a[2],1]))
print("== C08 MieLens vs Lens incl cutoff; y-pol; AberratedMieLens zero")
s=Sphere(n=1.59,r=.5,center=(0,0,3))
for X in [5, 30, 35]:
    d=hp.detector_points(x=np.linspace(0,X,60),y=np.zeros(60),z=0.)
    fm=calc_field(d,s,1.33,.66,(0,1),theory=MieLens(.8)); fl=calc_field(d,s,1.33,.66,(0,1),theory=Lens(.8,Mie(),200,200))
    print("X",X,"krho max",k*X, rel(fm,fl), float(np.abs(fl.values[-1]).max()/np.abs(fl.values).max()))
for ab in [0.0,[0.0],[0,0,0],np.zeros(5)]:
    fa=calc_field(d,s,1.33,.66,(0,1),theory=AberratedMieLens(ab,.8)); print(" aberr0", rel(fa,fm), np.array_equal(fa.values,fm.values))
for kw in [{'interpolate_integrals':True},{'interpolate_integrals':False},{'quad_npts':200},{'interpolator_degree':40,'interpolate_integrals':True},{'interpolator_window_size':10.,'interpolate_integrals':True}]:
    d=hp.detector_grid(20,.2)
    a=calc_field(d,Sphere(n=1.59,r=.5,center=(2,2,3)),1.33,.66,(0,1),theory=MieLens(.8,kw)); b=calc_field(d,Sphere(n=1.59,r=.5,center=(2,2,3)),1.33,.66,(0,1),theory=MieLens(.8)); print(kw, rel(a,b))
for z in [-3,-0.5,0,8,25]:
  for la in [.2,.8,1.3]:
    d=hp.detector_grid(10,.4)
    sp=Sphere(n=1.59,r=.5,center=(2,2,z))
    a=calc_field(d,sp,1.33,.66,(0,1),theory=MieLens(la)); b=calc_field(d,sp,1.33,.66,(0,1),theory=Lens(la,Mie(),100,100)); c=calc_field(d,sp,1.33,.66,(0,1),theory=Lens(la,Mie(),200,200))
    print("z",z,"la",la,"MieLens vs Lens100 %.1e Lens200 %.1e"%(rel(a,b),rel(a,c)))
