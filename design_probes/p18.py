import numpy as np, holopy as hp, warnings, sys, inspect, yaml
warnings.simplefilter('ignore')
import holopy.scattering as sc, holopy.inference as inf
from holopy.core.holopy_object import HoloPyObject
import holopy.inference.model, holopy.inference.result, holopy.core.prior, holopy.scattering.scatterer.csg, holopy.inference.emcee, holopy.inference.cmaes
seen={}
for mod in [sc, sc.scatterer, sc.theory, inf, inf.prior, inf.model, holopy.inference.result, holopy.scattering.scatterer.csg, holopy.inference.emcee, holopy.inference.cmaes, holopy.core.utils, holopy.scattering.imageformation, holopy.core.mapping]:
    for n,o in vars(mod).items():
        if inspect.isclass(o) and issubclass(o,HoloPyObject): seen[o.__name__]=o
for n,o in sorted(seen.items()):
    try: sig=str(inspect.signature(o.__init__))
    except Exception as e: sig='?'
    print(n, sig)
from holopy.inference import prior
from holopy.inference.cmaes import CmaStrategy
from holopy.inference.emcee import EmceeStrategy, TemperedStrategy
from holopy.inference.result import UncertainValue
for o in [CmaStrategy(), CmaStrategy(npixels=100,popsize=10,parallel=None,seed=3), EmceeStrategy(), EmceeStrategy(nwalkers=20,nsamples=10,npixels=50,parallel=None,seed=1), TemperedStrategy(), UncertainValue(1.0,.1,.2,'a'), UncertainValue(np.float64(1.0),np.float64(.1)), sc.Scatterers([sc.Sphere(n=1.5,r=.5,center=[1,2,3]), sc.Spheroid(n=1.5,r=[.3,.5],center=[1,1,1])])]:
    try:
        s=yaml.dump(o,default_flow_style=True); o2=yaml.load(s,Loader=yaml.FullLoader); print(type(o).__name__, o2==o, yaml.dump(o2,default_flow_style=True)==s)
        if not o2==o: print("   ",s.strip()[:300])
    except Exception as e: print(type(o).__name__,"EXC",type(e).__name__,str(e)[:200])
