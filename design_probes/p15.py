import numpy as np, holopy as hp, warnings, sys, json
warnings.simplefilter('ignore')
from holopy.scattering import *
from holopy.core.process import center_find
seed=int(sys.argv[1]); rng=np.random.default_rng(seed)
out=[]
for i in range(100):
    N=int(rng.integers(60,161)); sp=float(rng.uniform(.08,.15))
    fx,fy=rng.uniform(.2,.8,2); cx,cy=fx*N*sp,fy*N*sp; z=float(rng.uniform(5,25)); r=float(rng.uniform(.3,1.0)); n=float(rng.uniform(1.4,1.7))
    h=calc_holo(hp.detector_grid(N,sp),Sphere(n=n,r=r,center=(cx,cy,z)),1.33,.66,(1,0))
    c=center_find(h); e=np.array(c)-np.array([cx,cy])/sp
    out.append(dict(N=N,sp=sp,fx=fx,fy=fy,z=z,r=r,n=n,ex=float(e[0]),ey=float(e[1])))
print(json.dumps(out))
