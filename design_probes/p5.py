import numpy as np, holopy as hp, warnings, sys, time
warnings.simplefilter('ignore')
from holopy.scattering import *
from holopy.scattering.theory import Lens
def rel(a,b):
    a=getattr(a,'values',a); b=getattr(b,'values',b)
    return float(np.abs(a-b).max()/max(np.abs(b).max(),1e-300))
rng=np.random.default_rng(0)
pol=(np.cos(.4),np.sin(.4))
def mk(L=1.0, shift=(0,0), rot=0.0, which=None):
    c=lambda x,y,z: (L*(x*np.cos(rot)-y*np.sin(rot)+shift[0]), L*(x*np.sin(rot)+y*np.cos(rot)+shift[1]), L*z)
    S={}
    S['sphere']=Sphere(n=1.59,r=.5*L,center=c(.7,.6,6))
    S['layered']=Sphere(n=(1.59,1.45),r=(.3*L,.5*L),center=c(.7,.6,6))
    S['spheres']=Spheres([Sphere(n=1.59,r=.5*L,center=c(.7,.6,6)),Sphere(n=1.45,r=.3*L,center=c(1.7,.9,6.4))])
    S['spheroid']=Spheroid(n=1.59,r=(.4*L,.6*L),center=c(.7,.6,6),rotation=(0,.5,.3+rot))
    S['cyl']=Cylinder(n=1.59,h=.6*L,d=.5*L,center=c(.7,.6,6),rotation=(0,.5,.3+rot))
    return S
TH={'sphere':[Mie(),Multisphere(),Tmatrix(),MieLens(.9),Lens(.9,Mie(),30,30)],'layered':[Mie()],'spheres':[Mie(),Multisphere(),MieLens(.9)],'spheroid':[Tmatrix()],'cyl':[Tmatrix()]}
xs=rng.uniform(0,2,30); ys=rng.uniform(0,2,30)
def pts(L=1.0, shift=(0,0), rot=0.0):
    x=L*(xs*np.cos(rot)-ys*np.sin(rot)+shift[0]); y=L*(xs*np.sin(rot)+ys*np.cos(rot)+shift[1])
    return hp.detector_points(x=x,y=y,z=0.)
def P(th,rot=0):
    if isinstance(th,Tmatrix): return (1,0)
    a=.4+rot; return (np.cos(a),np.sin(a))
print("== C04 scale, C05 shift/rot")
for name in TH:
  for th in TH[name]:
    base=calc_holo(pts(),mk()[name],1.33,.66,P(th),theory=th)
    out=[]
    for L in [1e-4,1e3,7.3]:
        out.append(rel(calc_holo(pts(L),mk(L)[name],1.33,.66*L,P(th),theory=th),base))
    # index rescale
    S2=mk()[name]
    def resc(s):
        if isinstance(s,Spheres): return Spheres([resc(q) for q in s.scatterers])
        p=s.parameters; p['n']=np.array(p['n'])/1.33 if not np.isscalar(p['n']) else p['n']/1.33; return s.from_parameters(p)
    out.append(rel(calc_holo(pts(),resc(S2),1.0,.66/1.33,P(th),theory=th),base))
    sh=rel(calc_holo(pts(1,(3.3,-1.7)),mk(1,(3.3,-1.7))[name],1.33,.66,P(th),theory=th),base)
    if isinstance(th,Tmatrix): ro=np.nan
    else: ro=rel(calc_holo(pts(1,(0,0),0.77),mk(1,(0,0),0.77)[name],1.33,.66,P(th,0.77),theory=th),base)
    print(name,type(th).__name__,"scale",["%.1e"%o for o in out],"shift %.1e rot %.1e"%(sh,ro))
