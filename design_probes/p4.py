import numpy as np, holopy as hp, warnings, sys, time
warnings.simplefilter('ignore')
from holopy.scattering import *
def rel(a,b):
    a=getattr(a,'values',a); b=getattr(b,'values',b)
    return float(np.abs(a-b).max()/max(np.abs(b).max(),1e-300))
det = hp.detector_grid(shape=(8,9), spacing=(.21,.17))
pol=(np.cos(.4),np.sin(.4))
k=2*np.pi*1.33/.66
for x in [3,10,30,45,55,70]:
    s=Sphere(n=1.59,r=x/k,center=(.7,.6,15.))
    fm=calc_field(det,s,1.33,.66,pol,theory=Mie(compute_escat_radial=False))
    for q1,q2,eps in [(1e-5,1e-8,1e-6),(1e-8,1e-11,1e-9),(1e-12,1e-14,1e-12)]:
        try:
            fs=calc_field(det,s,1.33,.66,pol,theory=Multisphere(qeps1=q1,qeps2=q2,eps=eps))
            print(x,q1,q2,rel(fs,fm))
        except Exception as e: print(x,q1,"EXC",type(e).__name__)
