import numpy as np, holopy as hp, warnings, sys, time, traceback, tempfile, os
import xarray as xr
warnings.simplefilter('ignore')
from holopy.core.metadata import data_grid, update_metadata, detector_grid
from holopy.core.io import load_average
from holopy.core.io.io import Accumulator, save_image, load_image
from holopy.core.process import normalize, detrend, zero_filter, subimage, bg_correct, center_find
rng=np.random.default_rng(0)
td=tempfile.mkdtemp()
def T(name,f):
    try: print(name, f())
    except Exception as e: print(name,"EXC",type(e).__name__,str(e)[:200])
# HDF5 round trip
for shape,dt in [((5,7),float),((1,4),float),((6,6),np.float32),((4,4),int),((3,5),complex)]:
    a=(rng.normal(size=shape)*10).astype(dt)
    im=data_grid(a,spacing=(.1,.25),medium_index=1.33,illum_wavelen=.66,illum_polarization=(1,1),noise_sd=.05,name='myimg')
    def f():
        p=os.path.join(td,'a.h5'); hp.save(p,im); b=hp.load(p)
        return (np.array_equal(b.values,im.values), b.dtype==im.dtype, all(np.array_equal(b[c],im[c]) for c in im.coords), b.name, {k:(np.allclose(np.asarray(b.attrs[k],dtype=float),np.asarray(im.attrs[k],dtype=float)) if im.attrs[k] is not None else b.attrs[k] is None) for k in im.attrs}, b.dims)
    T("h5 %s %s"%(shape,dt.__name__),f)
# multichannel
def f():
    d=detector_grid((4,5),.1,extra_dims={'illumination':['red','green']})
    d=update_metadata(d,1.33,{'red':.66,'green':.52},{'red':(1,0),'green':(0,1)},{'red':.1,'green':.2}); d.values[:]=rng.normal(size=d.shape)
    p=os.path.join(td,'b.h5'); hp.save(p,d); b=hp.load(p)
    return (np.array_equal(b.values,d.values), b.illum_wavelen.equals(d.illum_wavelen), b.illum_polarization.equals(d.illum_polarization), b.noise_sd.equals(d.noise_sd), b.dims)
T("h5 multichannel",f)
# tiff
def f():
    a=rng.uniform(0,1,size=(6,8)); im=data_grid(a,spacing=(.1,.25),medium_index=1.33,illum_wavelen=.66,illum_polarization=(1,0),noise_sd=.05,name='t')
    p=os.path.join(td,'c.tif'); hp.save(p,im); b=hp.load(p)
    return (float(np.abs(b.values-im.values).max()), (im.values.max()-im.values.min())/255, np.allclose(b.x,im.x), np.allclose(b.y,im.y), b.attrs['medium_index'], b.name, b.dims)
T("tiff",f)
def f():
    a=rng.uniform(0,1,size=(6,8)); im=data_grid(a,spacing=.1,name='t')
    p=os.path.join(td,'d.tif'); save_image(p,im,scaling=None,depth='float'); b=load_image(p,spacing=(.2,.3))
    return (float(np.abs(b.values-im.values).max()), b.x.values, b.y.values, b.dims)
T("tiff float/load_image",f)
# load_average
def f():
    paths=[]; arrs=[]
    for i in range(4):
        a=rng.uniform(.2,1,size=(6,8)); arrs.append(a); p=os.path.join(td,'avg%d.tif'%i); save_image(p,data_grid(a,spacing=.1),scaling=None,depth='float'); paths.append(p)
    m1=load_average(paths,spacing=.1); m2=load_average(paths[::-1],spacing=.1)
    A=np.array(arrs).astype(np.float32).astype(float)
    return (float(np.abs(m1.values.squeeze()-A.mean(0)).max()), float(np.abs(m1.values-m2.values).max()), float(m1.noise_sd), float((A.std(0)/A.mean(0)).mean()), float(m2.noise_sd))
T("load_average",f)
# update_metadata purity
def f():
    im=data_grid(np.ones((3,3)),spacing=.1,medium_index=1.33,illum_wavelen=.66,illum_polarization=(1,0)); at=dict(im.attrs)
    b=update_metadata(im,illum_polarization=(3,4),noise_sd=.3)
    return (b.illum_polarization.values, im.attrs['noise_sd'], im.attrs.keys()==at.keys(), b.medium_index)
T("update_metadata",f)
print("== C18")
a=rng.uniform(1,5,size=(7,9)); im=data_grid(a,spacing=(.1,.2),medium_index=1.33,illum_wavelen=.66,illum_polarization=(1,0),noise_sd=.05)
n=normalize(im); print("normalize mean", float(n.mean())-1, float(np.abs(normalize(n).values-n.values).max()), float(np.abs(normalize(3.7*im).values-n.values).max()), n.attrs==im.attrs)
X,Y=np.meshgrid(np.arange(7),np.arange(9),indexing='ij'); pl=data_grid(a+3*X-2*Y+5,spacing=(.1,.2)); print("detrend", float(np.abs(detrend(pl).values-detrend(data_grid(a,spacing=(.1,.2))).values).max()))
z=a.copy(); z[3,4]=0; z[0,5]=0; zf=zero_filter(data_grid(z,spacing=.1)); print("zero_filter", zf.values[0,3,4]-(a[2,4]+a[4,4]+a[3,3]+a[3,5])/4, zf.values[0,0,5]-(a[0,4]+a[0,6])/2, np.array_equal(np.delete(zf.values.ravel(),[3*9+4,5]),np.delete(a.ravel(),[3*9+4,5])))
z=a.copy(); z[0,0]=0
T("zero corner", lambda: zero_filter(data_grid(z,spacing=.1)))
T("bg self", lambda: float(np.abs(bg_correct(im,im).values-1).max()))
df=data_grid(rng.uniform(0,.5,size=(7,9)),spacing=(.1,.2)); bg=data_grid(rng.uniform(2,3,size=(7,9)),spacing=(.1,.2))
T("bg formula", lambda: float(np.abs(bg_correct(im,bg,df).values-((im.values-df.values)/(bg.values-df.values))).max()))
T("subimage", lambda: (lambda s:(s.shape, s.x.values, s.y.values, np.array_equal(s.values[0], a[1:5,2:8])))(subimage(im,(3,5),(4,6))))
acc=Accumulator(); arrs=[rng.normal(size=(4,4)) for _ in range(7)]
for x in arrs: acc.push(x)
print("acc", np.abs(acc.mean()-np.mean(arrs,0)).max(), np.abs(acc.std()-np.std(arrs,0)).max())
