import numpy as np, holopy as hp, warnings, sys, time, traceback
warnings.simplefilter('ignore')
from holopy.scattering import *
from holopy.core.process import center_find, subimage
from holopy.core.prior import make_center_priors
rng=np.random.default_rng(0)
errs=[]
t=time.time()
for i in range(40):
    N=int(rng.integers(60,161)); sp=float(rng.uniform(.08,.15))
    cx,cy=rng.uniform(.2,.8,2)*N*sp; z=float(rng.uniform(5,25)); r=float(rng.uniform(.3,1.0)); n=float(rng.uniform(1.4,1.7))
    h=calc_holo(hp.detector_grid(N,sp),Sphere(n=n,r=r,center=(cx,cy,z)),1.33,.66,(1,0))
    c=center_find(h); e=np.array(c)-np.array([cx,cy])/sp
    errs.append(np.abs(e).max())
    if np.abs(e).max()>1: print("MISS N=%d sp=%.3f c=(%.2f,%.2f) z=%.1f r=%.2f n=%.2f err=%s"%(N,sp,cx/sp,cy/sp,z,r,n,e))
print("center_find max err px", max(errs), "mean", np.mean(errs), "n>1:", sum(e>1 for e in errs), "time", time.time()-t)
h=calc_holo(hp.detector_grid(100,.1),Sphere(n=1.59,r=.5,center=(4,6,10)),1.33,.66,(1,0))
print(make_center_priors(h))
s=subimage(h,(40,60),20); print(s.shape, s.x.values[[0,-1]], s.y.values[[0,-1]], np.array_equal(s.values, h.values[:, 30:50,50:70]) if h.dims[0]=='z' else np.array_equal(s.values, h.values[30:50,50:70]), h.dims)
