import numpy as np, holopy as hp, warnings, sys, time, io, yaml, traceback
warnings.simplefilter('ignore')
from holopy.scattering import *
from holopy.scattering.theory import Lens
from holopy.inference import prior, AlphaModel, ExactModel, NmpfitStrategy, LeastSquaresScipyStrategy
from holopy.inference.model import LimitOverlaps
from holopy.core.io import serialize
def rt(obj):
    s=yaml.dump(obj, default_flow_style=True); o2=yaml.load(s, Loader=yaml.FullLoader); s2=yaml.dump(o2, default_flow_style=True)
    return o2, s==s2, s
objs = {
 'sphere': Sphere(n=1.59,r=.5,center=(1,2,3)),
 'sphere_np': Sphere(n=np.float64(1.59),r=np.float64(.5),center=np.array([1.,2,3])),
 'sphere_cplx': Sphere(n=1.59+0.1j,r=.5,center=(1,2,3)),
 'sphere_npcplx': Sphere(n=np.complex128(1.59+0.1j),r=.5,center=(1,2,3)),
 'layered': Sphere(n=(1.59,1.4),r=(.3,.5),center=(1,2,3)),
 'LayeredSphere': LayeredSphere(n=(1.59,1.4),t=(.3,.2),center=(1,2,3)),
 'spheres': Spheres([Sphere(n=1.59,r=.5,center=(1,2,3)),Sphere(n=1.4,r=.3,center=(3,2,3))]),
 'spheroid': Spheroid(n=1.59,r=(.3,.5),center=(1,2,3),rotation=(0,.1,.2)),
 'cyl': Cylinder(n=1.59,h=1,d=.5,center=(1,2,3),rotation=(0,.1,.2)),
 'ellipsoid': Ellipsoid(n=1.59,r=(.3,.5,.6),center=(1,2,3)),
 'capsule': Capsule(n=1.59,h=1,d=.5,center=(1,2,3)),
 'bisphere': Bisphere(n=1.59,h=1,d=.5,center=(1,2,3)),
 'janus': JanusSphere_Uniform(n=(1.34,2.0),r=(.5,.51),rotation=(0,-np.pi/2,0),center=(5,5,5)),
 'rigid': RigidCluster(Spheres([Sphere(n=1.59,r=.5,center=(1,2,3)),Sphere(n=1.4,r=.3,center=(3,2,3))]),translation=(1,1,1),rotation=(.1,.2,.3)),
 'uniform': prior.Uniform(1,2), 'uniform_named': prior.Uniform(1,2,1.3,'a'), 'uniform_inf': prior.Uniform(0,np.inf), 'gauss': prior.Gaussian(1,.1), 'bg': prior.BoundedGaussian(1,.1,0,2,'x'),
 'cprior': prior.ComplexPrior(prior.Uniform(1,2),0.1), 'tprior': prior.Uniform(1,2)*3+1, 'ufprior': np.sqrt(prior.Uniform(1,2)), 'tnamed': prior.TransformedPrior(np.add,[prior.Uniform(1,2),prior.Gaussian(0,1)],name='t'),
 'mie': Mie(False,False), 'multi': Multisphere(niter=100,meth=0), 'tm': Tmatrix(), 'mielens': MieLens(.7,{'quad_npts':50}), 'amielens': AberratedMieLens([.1,.2],.7), 'lens': Lens(.7,Mie(),50,60), 'mielens_prior': MieLens(prior.Uniform(.5,1.)),
 'nmp': NmpfitStrategy(npixels=100,seed=3), 'lsq': LeastSquaresScipyStrategy(npixels=50), 'limit': LimitOverlaps(.2),
 'sphere_None': Sphere(n=1.5, r=.5, center=None),
 'sphere_prior': Sphere(n=prior.Uniform(1,2),r=prior.Gaussian(.5,.1),center=[prior.Uniform(0,1),2,3]),
}
for k,o in objs.items():
    try:
        o2,same,s=rt(o); print(k, "eq", o2==o, "text-idempotent", same, type(o2).__name__)
        if not (o2==o): print("    ", s.strip()[:200]); print("    ", repr(o2)[:200])
    except Exception as e: print(k,"EXC",type(e).__name__,str(e)[:150])
