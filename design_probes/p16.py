import numpy as np, holopy as hp, warnings, sys
sys.path.insert(0,'/tmp/fb/probe'); import refmie
from scipy.special import spherical_jn, spherical_yn
warnings.simplefilter('ignore')
from holopy.scattering import *
def bh_fields(m,x,kr,theta,phi,pol,radial=True):
    """Bohren&Huffman eq 4.45 scattered field for x-polarised unit incident, generalised to pol (px,py) by rotation of phi. returns cartesian (3,N) in particle frame (z along propagation)"""
    an,bn=refmie.mie_ab(m,x); N=len(an); n=np.arange(1,N+1)[:,None]
    pi,tau=refmie.pitau(theta,N)
    En=(1j**n)*(2*n+1)/(n*(n+1))
    h=spherical_jn(n,kr[None,:])+1j*spherical_yn(n,kr[None,:]); dh=spherical_jn(n,kr[None,:],derivative=True)+1j*spherical_yn(n,kr[None,:],derivative=True)
    xi=kr*h; dxi=h+kr*dh
    out=np.zeros((3,len(kr)),complex)
    for (p,ph) in [(pol[0],phi),(pol[1],phi-np.pi/2)]:
        c,s=np.cos(ph),np.sin(ph)
        Eth= c/kr*(En*(1j*an[:,None]*dxi*tau-bn[:,None]*xi*pi)).sum(0)
        Eph= s/kr*(En*(bn[:,None]*xi*tau-1j*an[:,None]*dxi*pi)).sum(0)
        Er = c/kr**2*(1j*En*an[:,None]*n*(n+1)*np.sin(theta)*pi*xi).sum(0) if radial else 0*Eth
        # spherical unit vectors in the frame rotated by (phi-ph) about z: field components along e_r,e_theta,e_phi are frame-independent
        st,ct,sp,cp=np.sin(theta),np.cos(theta),np.sin(phi),np.cos(phi)
        out[0]+=p*(Er*st*cp+Eth*ct*cp-Eph*sp); out[1]+=p*(Er*st*sp+Eth*ct*sp+Eph*cp); out[2]+=p*(Er*ct-Eth*st)
    return out
rng=np.random.default_rng(0)
k=2*np.pi*1.33/.66
for x,m in [(0.5,1.2),(5,1.2+0.02j),(25,1.1)]:
    r=x/k; zc=max(3*r,2.0)
    xs=rng.uniform(-3,3,25); ys=rng.uniform(-3,3,25)
    d=hp.detector_points(x=xs,y=ys,z=0.)
    pol=np.array([np.cos(.4),np.sin(.4)])
    f=calc_field(d,Sphere(n=m*1.33,r=r,center=(0.3,-0.2,zc)),1.33,.66,tuple(pol),theory=Mie()).values  # (N,3)
    X,Y,Z=k*(xs-0.3),k*(ys+0.2),k*(zc-0)
    kr=np.sqrt(X**2+Y**2+Z**2); th=np.arctan2(np.hypot(X,Y),Z); ph=np.arctan2(Y,X)
    ref=bh_fields(m,x,kr,th,ph,pol)*np.exp(-1j*k*zc)
    # holopy's cartesian frame: fieldstocart gives z comp = -sin(theta)*E_theta (z axis flipped?) compare components
    print(x,m, "x,y comps:", np.abs(f[:,:2]-ref[:2].T).max()/np.abs(f).max(), " z comp (same sign / flipped):", np.abs(f[:,2]-ref[2]).max()/np.abs(f).max(), np.abs(f[:,2]+ref[2]).max()/np.abs(f).max())
