import numpy as np, holopy as hp, warnings, sys, time
warnings.simplefilter('ignore')
from holopy.scattering import *
from holopy.scattering.theory import Lens
def rel(a,b):
    a=getattr(a,'values',a); b=getattr(b,'values',b)
    return float(np.abs(a-b).max()/max(np.abs(b).max(),1e-300))
rng=np.random.default_rng(0)
det = hp.detector_grid(shape=(8,9), spacing=(.21,.17))
pol=(np.cos(.4),np.sin(.4))
print("== C02: Multisphere(1 sphere) vs Mie; layered identities")
for x in [0.05,0.5,3,10,30,70]:
  for n in [1.59, 1.2+0.05j, 1.0]:
    k=2*np.pi*1.33/.66; r=x/k
    for zc in [3*r+0.2, 15.]:
        s=Sphere(n=n,r=r,center=(.7,.6,zc))
        try:
            fm=calc_field(det,s,1.33,.66,pol,theory=Mie(compute_escat_radial=False))
            fs=calc_field(det,Spheres([s]),1.33,.66,pol,theory=Multisphere())
            fs2=calc_field(det,s,1.33,.66,pol,theory=Multisphere(meth=0))
            sm=calc_scat_matrix(det,s,1.33,.66,theory=Mie()); ss=calc_scat_matrix(det,s,1.33,.66,theory=Multisphere())
            csm=calc_cross_sections(s,1.33,.66,pol,theory=Mie()).values; t=time.time(); css=calc_cross_sections(s,1.33,.66,pol,theory=Multisphere()).values; dt=time.time()-t
            print("x=%g n=%s z=%.2f field %.1e meth0 %.1e smat %.1e  xsec %s (%.1fs)"%(x,n,zc,rel(fs,fm),rel(fs2,fm),rel(ss,sm), np.abs(css-csm)/np.abs(csm[2]), dt))
        except Exception as e: print(x,n,zc,"EXC",type(e).__name__,str(e)[:100])
s1=Sphere(n=1.59,r=.5,center=(.7,.6,6))
f1=calc_field(det,s1,1.33,.66,pol)
for lay in [Sphere(n=(1.59,1.59),r=(.2,.5),center=(.7,.6,6)), Sphere(n=(1.59,1.59,1.59),r=(.2,.3,.5),center=(.7,.6,6)), Sphere(n=(1.59,1.33),r=(.5,.8),center=(.7,.6,6)), LayeredSphere(n=(1.59,1.59),t=(.2,.3),center=(.7,.6,6)), Sphere(n=(1.59,1.59,1.33,1.33),r=(.2,.5,.6,.9),center=(.7,.6,6))]:
    print(" layered ident", rel(calc_field(det,lay,1.33,.66,pol),f1))
a=calc_field(det,Sphere(n=(1.59,1.45,1.45),r=(.2,.3,.5),center=(.7,.6,6)),1.33,.66,pol); b=calc_field(det,Sphere(n=(1.59,1.45),r=(.2,.5),center=(.7,.6,6)),1.33,.66,pol); c=calc_field(det,LayeredSphere(n=(1.59,1.45),t=(.2,.3),center=(.7,.6,6)),1.33,.66,pol)
print(" merge adjacent", rel(a,b), "thickness vs radius", rel(c,b))
print("== C09 order independence / rotation")
sp=[Sphere(n=1.59,r=.5,center=(1,1,8)),Sphere(n=1.45+0.01j,r=.3,center=(1.9,1.2,8.3)),Sphere(n=1.7,r=.4,center=(.9,2.0,7.6))]
f0=calc_field(det,Spheres(sp),1.33,.66,pol,theory=Multisphere())
for perm in [(1,0,2),(2,1,0),(1,2,0)]:
    print(" perm",perm, rel(calc_field(det,Spheres([sp[i] for i in perm]),1.33,.66,pol,theory=Multisphere()),f0), rel(calc_field(det,Spheres([sp[i] for i in perm]),1.33,.66,pol,theory=Multisphere(meth=0)),f0))
