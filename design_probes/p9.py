import numpy as np, holopy as hp, warnings, sys, time, io, yaml, traceback, tempfile, os
warnings.simplefilter('ignore')
from holopy.scattering import *
from holopy.inference import prior, AlphaModel, ExactModel, NmpfitStrategy, LeastSquaresScipyStrategy
from holopy.inference.model import LimitOverlaps
def rel(a,b):
    a=getattr(a,'values',a); b=getattr(b,'values',b)
    return float(np.abs(a-b).max()/max(np.abs(b).max(),1e-300))
det=hp.detector_grid(40,.1)
true=Sphere(n=1.59,r=.5,center=(2.1,1.9,7))
data=calc_holo(det,true,1.33,.66,(1,0),scaling=.8)
data=hp.core.update_metadata(data,noise_sd=.05)
def model(guess_off=0.0):
    s=Sphere(n=prior.Uniform(1.4,1.8,1.59*(1+guess_off)),r=prior.Uniform(.3,.8,.5*(1+guess_off)),center=[prior.Uniform(1,3,2.1+guess_off),prior.Uniform(1,3,1.9-guess_off),prior.Uniform(5,9,7*(1+guess_off))])
    return AlphaModel(s,alpha=prior.Uniform(.5,1,.8*(1+guess_off)),noise_sd=.05,medium_index=1.33,illum_wavelen=.66,illum_polarization=(1,0))
m=model()
print(m.parameters.keys(), m.initial_guess)
print("lnprior", m.lnprior(m.initial_guess), sum(p.lnprob(p.guess) for p in m._parameters))
fw=m.forward(m.initial_guess,data); print("forward vs calc_holo", rel(fw,data))
ll=m.lnlike(m.initial_guess,data); N=data.size; print("lnlike", ll, -N/2*np.log(2*np.pi)-N*np.log(.05))
bad=dict(m.initial_guess); bad['r']=5; print("lnpost out of support", m.lnposterior(bad,data))
for strat in [NmpfitStrategy(), LeastSquaresScipyStrategy(), NmpfitStrategy(npixels=300,seed=1)]:
    for off in [0.0, 0.02]:
        mm=model(off); t=time.time()
        try:
            res=hp.fit(data,mm,strategy=strat)
            err={k:res.parameters[k]-v for k,v in zip(res.parameters,[1.59,.5,2.1,1.9,7,.8])}
            print(type(strat).__name__,off,"%.1fs"%(time.time()-t),{k:"%.1e"%v for k,v in err.items()}, "names ok", list(res.parameters)==list(mm.parameters), res.max_lnprob, mm.lnposterior(res.parameters,res.data))
            with tempfile.TemporaryDirectory() as td:
                p=os.path.join(td,'r.h5'); hp.save(p,res); r2=hp.load(p); print("   reload params eq", r2.parameters==res.parameters, rel(r2.hologram,res.hologram), type(r2.strategy).__name__, r2.model==res.model)
        except Exception as e: traceback.print_exc(); print(type(strat).__name__,off,"EXC",type(e).__name__,str(e)[:200])
