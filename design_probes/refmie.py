import numpy as np
from scipy.special import spherical_jn, spherical_yn
def nstop(x): return int(np.round(x+4.05*x**(1/3.)+2))
def mie_ab(m, x, nmax=None):
    """BH eq 4.88 with downward recurrence for D_n(mx) (BHMIE), upward for psi, chi (real x)."""
    if nmax is None: nmax = nstop(x)
    mx = m*x
    nmx = int(max(nmax, abs(mx))+16)
    D = np.zeros(nmx+1, dtype=complex)
    for n in range(nmx, 0, -1):
        D[n-1] = n/mx - 1.0/(D[n]+n/mx)
    n = np.arange(1, nmax+1)
    # psi_n(x)=x j_n(x); chi_n(x) = -x y_n(x); xi = psi - i chi  (BH: xi = x h1 = psi + i x y_n)
    jn = spherical_jn(np.arange(0,nmax+1), x); yn = spherical_yn(np.arange(0,nmax+1), x)
    psi = x*jn; xi = x*(jn+1j*yn)
    Dn = D[1:nmax+1]
    an = ((Dn/m + n/x)*psi[1:] - psi[:-1])/((Dn/m + n/x)*xi[1:] - xi[:-1])
    bn = ((Dn*m + n/x)*psi[1:] - psi[:-1])/((Dn*m + n/x)*xi[1:] - xi[:-1])
    return an, bn
def pitau(theta, nmax):
    mu=np.cos(np.atleast_1d(theta)); pi=np.zeros((nmax+1,mu.size)); tau=np.zeros_like(pi)
    pi[1]=1; tau[1]=mu
    for n in range(2,nmax+1):
        pi[n]=(2*n-1)/(n-1)*mu*pi[n-1]-n/(n-1)*pi[n-2]
        tau[n]=n*mu*pi[n]-(n+1)*pi[n-1]
    return pi[1:],tau[1:]
def S12(m,x,theta):
    an,bn=mie_ab(m,x); N=len(an); n=np.arange(1,N+1)[:,None]
    pi,tau=pitau(theta,N); c=(2*n+1)/(n*(n+1))
    S1=(c*(an[:,None]*pi+bn[:,None]*tau)).sum(0); S2=(c*(an[:,None]*tau+bn[:,None]*pi)).sum(0)
    return S1,S2
def qs(m,x):
    an,bn=mie_ab(m,x); n=np.arange(1,len(an)+1)
    qsca=2/x**2*((2*n+1)*(abs(an)**2+abs(bn)**2)).sum(); qext=2/x**2*((2*n+1)*(an+bn).real).sum()
    g=4/(x**2*qsca)*((n[:-1]*(n[:-1]+2)/(n[:-1]+1)*(an[:-1]*an[1:].conj()+bn[:-1]*bn[1:].conj()).real).sum()+((2*n+1)/(n*(n+1))*(an*bn.conj()).real).sum())
    return qsca,qext,g
